#!/bin/bash
# usage: tools/matrix.sh [ids...]   — development aid: runs the target property's quick check against every seeded change,
# on scratch copies of /repo and /verif (neither /repo nor /verif/evidence is touched). Output: one line per change.
export GOFLAGS=-mod=mod GOPROXY=off GOSUMDB=off GOTOOLCHAIN=local
W=$(mktemp -d /tmp/mx.XXXX)
rsync -a --exclude .git --exclude evidence --exclude replays --exclude seeded /verif/ $W/verif/
mkdir -p $W/verif/evidence
IDS=${*:-$(ls /verif/seeded | sort)}
for id in $IDS; do
  P=$(python3 -c "import json;print(json.load(open('/verif/seeded/$id/meta.json'))['breaks_property'])")
  git -C /repo worktree add -q --detach $W/repo HEAD || { echo "$id worktree failed"; continue; }
  if ! git -C $W/repo apply /verif/seeded/$id/patch.diff 2>/dev/null; then
    echo "$id $P PATCH-DOES-NOT-APPLY"
  else
    $W/verif/bin/goitsym check --repo $W/repo --verif $W/verif --property $P --tier quick -j ${MX_J:-8} > $W/log 2>&1
    e=$?
    echo "$id $P exit=$e violations=$(grep -c '^VIOLATION' $W/log) $(grep '^property' $W/log | sed 's/.*: //' | cut -c1-120)"
  fi
  git -C /repo worktree remove --force $W/repo
done
rm -rf $W
