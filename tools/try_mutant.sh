#!/bin/bash
# usage: try_mutant.sh <patch.diff> <demo.sh> <prop> [more props]
# 1. confirms the patch on a scratch worktree: builds, existing tests pass, demo fails with it and passes without;
# 2. applies it to /repo, runs the given checks (quick), and undoes it.
export GOFLAGS=-mod=mod GOPROXY=off GOSUMDB=off GOTOOLCHAIN=local
PATCH=$1; DEMO=$2; shift 2
S=$(mktemp -d /tmp/mutchk.XXXX)
git -C /repo worktree add -q --detach $S/wt HEAD || exit 9
( cd /repo && go build -o $S/goit_base . ) || { echo "BASE BUILD FAIL"; }
( cd $S/wt && git apply $PATCH ) || { echo "PATCH DOES NOT APPLY"; git -C /repo worktree remove --force $S/wt; rm -rf $S; exit 8; }
( cd $S/wt && go build -o $S/goit_mut . ) || echo "MUTANT BUILD FAIL"
T=$( cd $S/wt && go test -vet=off -count=1 ./... 2>&1 | grep -c "^FAIL\|^---" )
echo "existing tests failing lines with mutant: $T"
if [ -n "$DEMO" ] && [ -f "$DEMO" ]; then
  ( cd $S && bash $DEMO $S/goit_mut > $S/demo_mut.log 2>&1 ); echo "demo with change: exit=$?"
  ( cd $S && bash $DEMO $S/goit_base > $S/demo_base.log 2>&1 ); echo "demo without change: exit=$?"
fi
git -C /repo worktree remove --force $S/wt
rm -rf $S
git -C /repo apply $PATCH || { echo "cannot apply to /repo"; exit 7; }
for p in "$@"; do
  /verif/bin/goitsym check -j ${MUT_J:-16} --property $p --tier quick > /tmp/mutcheck_$p.log 2>&1
  echo "check $p exit=$? :: $(grep -c '^VIOLATION' /tmp/mutcheck_$p.log) violation lines :: $(grep '^VIOLATION' -A1 /tmp/mutcheck_$p.log | grep harness= | head -2 | cut -c1-260 | tr '\n' ' ')"
done
git -C /repo checkout -- . && git -C /repo status --short | head -3
