#!/usr/bin/env python3
"""Regenerates /verif/MANIFEST.json from the table below (the registry of harnesses lives in engine/registry.go)."""
import json

P = {
 "C01": ("object store", "object.NewObject/Header/compress/Write/GetObject/readHeader, binary.ReadNullTerminatedString and the hash-object/add/cat-file commands executed from SSA; payload bytes 0..6 (thorough 48) all free, the object kernels also with SHA-1 as a free function (Ackermann axioms) for payloads of 0..4 (16) bytes, size field every value of 1..10 (18) digits followed by free bytes",
         "payloads longer than the bound (multi-MiB content, compressibility) and the internals of deflate/SHA-1 are outside the claim"),
 "C02": ("commit step", "cmd.writeTreeObject, cmd.commit, the commit/add/branch/config RunE closures and everything they call, from `goit init` on an empty model file system; 1..2 files with free names (depth<=2, components<=1 (2) bytes over a-z0-9 space ( + _ . -) and free contents, free message (tab, newline, printable) of 0..1 (2) bytes, with/without parent and second branch; plus a commit made right after switch / switch -c / branch -r among 1..3 further branches with free case-mixed names of 1 (2) bytes (only the current branch moves, to a commit whose parent is its previous commit); a free user name (1..2 (3) printable bytes incl. '%') and message; independent Git-format decoders as oracle",
         "more files, deeper paths, longer names/messages, histories longer than two commits"),
 "C03": ("connectivity after one command", "every modifying command's RunE from four reachable prefixes (nothing committed / one commit / two commits + second branch / renamed branch), plus two staged blobs whose real SHA-1 ids share the first byte (same fan-out directory, pair found by search); with hostile branch names ('../../HEAD', 'a/b', '..', free 1..2 byte names), ids of commits/trees/blobs/free 39-41 hex digits, reflog positions 0..9; fsck written in the harness with independent decoders",
         "command sequences longer than prefix + 2; argument strings outside the hostile grammar"),
 "C04": ("add / rm exactness", "add/rm RunE, cmd.add, Index.Update/DeleteEntry/GetEntry/GetEntriesByDirectory, file.GetFilePathsUnderDirectory, Ignore.IsIncluded; 1..2 tracked files (each untouched/edited/deleted, for rm also replaced by a directory holding an untracked file) + one untracked file; plus add/rm of a tracked path whose parent directory was replaced by an untracked file with free names, one free path argument (file, directory, deleted path, unknown, path through a file)",
         "more than two tracked files, two arguments, invocation from a sub-directory"),
 "C05": ("snapshot read-back", "writeTreeObject -> GetObject -> NewTree/walkTree -> Tree.String and reset --mixed + ls-files -s; 0..2 (3) entries with free names (space included) and 20 free id bytes each",
         "trees not written by Goit (C19), depth > 2"),
 "C06": ("staging-area file and lookups", "Index.write/read/Update/DeleteEntry/GetEntry/IsRegisteredAsDirectory/GetEntriesByDirectory as one step from an ARBITRARY canonical index (0..3 (4) entries, free paths of depth<=2, components<=2 bytes, free ids) with a free query path; inductive: covers histories of any length because every mutator is shown to preserve the invariant; plus a file of 170 (2600) entries, i.e. above the 4 KiB (64 KiB) buffers of the standard library, with one free entry whose name may exceed 255 bytes",
         "more free entries / longer free components than the bound; paths >= 65536 bytes"),
 "C07": ("staged-changes report", "Index.DiffWithTree, object.GetNode, getEntriesFromTree, isCommitNecessary over a pool of 0..2 (3) free paths with free membership in HEAD / index and free 'changed' bits, the HEAD tree produced by the real writer and reader; plus status/commit at the CLI (one or two tracked files staged, removed or re-added with free bytes, a new file; a tracked file replaced by a directory or the reverse and staged again)",
         "pools larger than the bound"),
 "C08": ("reset modes", "reset RunE, resetHead/resetIndex/resetWorkingTree, Reflog.load/GetRecord/Show, Head.Reset, Index.Reset, ReflectToWorkingTree after two commits (the second edits or renames a file, or replaces a file by a directory / a directory by a file) + second branch with a perturbed work tree; journals of 11 (25) entries with one- and two-digit positions; argument = valid position, free digit, free 1..2 (3) byte junk, or a position with free text around it; all three modes",
         "content-changing histories with more than two commits"),
 "C09": ("restore exactness", "restore RunE, restoreIndex, restoreWorkingDirectory, stagedPathsUnder, GetNode, Node.GetPaths over (HEAD, index, work tree) triples built by real commands with free names and a free path argument",
         "more than two tracked files; two arguments"),
 "C10": ("branch / HEAD state machine", "Refs.getBranchPos/AddBranch/RenameBranch/DeleteBranch/UpdateBranchHash/NewRefs as one step from an ARBITRARY sorted set of 0..3 branches with free names over a-zA-Z0-9_.- (inductive), and branch/switch/update-ref/rev-parse/branch --list at the CLI from 1..3 branches (free names over a-zA-Z0-9_.: and space, including 'head'/'Head'; the operand name up to 2 bytes, so ': ' is covered)",
         "interleavings deeper than prefix + 1 are covered only through the inductive kernels"),
 "C11": ("reflog journal", "log.NewRecord/record.String/WriteHEAD -> Reflog.load/GetRecord/Show with 1..2 records, every kind, nil/non-nil ids, free messages of 0..2 (3) bytes over tab/newline/printable, three zone offsets; and commit/switch/switch -c/reset at the CLI after branch -r; histories may rename to, create and delete, or switch to a branch literally named HEAD",
         "messages longer than the bound; symbolic non-ASCII"),
 "C12": ("commit metadata round trip", "Sign.String/readSign with the offset a solver variable over all 105 quarter-hour offsets, 10 free decimal digits of unix time, free name and e-mail of the accepted grammar; and `commit` with a symbolic clock at the CLI followed by cat-file/log",
         "names longer than 2 (3) bytes, unix times outside 10 digits, \\r, symbolic non-ASCII"),
 "C13": ("working-tree report", "status RunE, GetFilePathsUnderDirectoryWithIgnore, Ignore.IsIncluded, Index.GetEntry, NewObject with 1..2 tracked files (untouched / rewritten with free bytes / deleted) and an optional untracked file with free names; a tracked file replaced on disk by a directory and the reverse; a .goitignore ('*.ext' and 'dir/') with ignored, untracked and modified files side by side",
         "timestamps (never read by the code: no ModTime call in the SSA), more files"),
 "C14": ("log", "walkHistory over parent chains of 1..20 (200) commits written into the object store with a free -n, and log RunE over chains of 1..4 (9) commits written by the real commit command, an optional side branch, optional dirty staging area, -n a free 64-bit integer in [-2,100] or absent",
         "chains longer than the bound; merge commits"),
 "C15": ("crash consistency", "26 modifying commands / states (init, config, config --global, add file / directory / '.' / a file that became a directory, commit first / second / on another branch, branch, branch -r (current and other branch), branch -d, switch, switch -c, rm file / directory, restore file / directory, restore --staged, reset soft/mixed/hard (also across a directory that must disappear), update-ref) with the crash index a solver variable over every file-system modification of the command (unwinding assertion on the range), followed by fsck and six read-only commands",
         "torn writes inside one write call, durability/fsync ordering, states outside the scenario list"),
 "C16": ("I/O failures", "the same 26 commands plus 6 read-only ones (reflog, status, log, ls-files -s, branch --list, cat-file -p) from a state that contains a .goitignore with an excluded file, with the index of the failing fallible call (open/create/first read of a handle incl. os.ReadFile and the zlib header/readdir/write/mkdir/rename/remove; stat excluded) a solver variable; oracle: exit 1, or exactly the state and output of the failure-free twin run from the same checkpoint; fsck afterwards",
         "partial writes, Close errors, more than one fault"),
 "C17": ("ignored paths", "add (file / directory / '.' / '.goit'), status, Ignore.load/IsIncluded, GetFilePathsUnderDirectory(WithIgnore) with free directory names, free extensions, every combination of 'name/' and '*.ext' lines, optionally separated by a blank line, an unexcluded neighbour next to the ignored files, after the metadata directory has grown; names merely containing '.goit'",
         "nested .goit directories, ignore lines other than 'name/' and '*.ext'"),
 "C18": ("no crash, no hang", "all 19 sub-commands x flag combinations x 0..2 arguments (free 1 (2)-byte strings over a-z0-9 space ( + _ . @ { } * [ : -, existing paths, branch names, HEAD@{d}, 39..41 hex digits) from 7 repository states (no repository, fresh, staged only, one commit, empty snapshot committed, renamed branch, no identity); after every mutating command seven follow-up commands (status, log, reflog, branch --list, reset --soft HEAD@{0}, add ., commit) run on the state it left, so refused and half-done commands are covered as producers of states; every Go run-time panic is modelled; loops bounded by unwinding assertions; plus every other harness (a panic anywhere is reported)",
         "cobra's own argv tokenisation and help output; wall-clock time"),
 "C19": ("decoders total", "readHeader, GetObject (arbitrary inflated plaintext, wrong name, non-zlib bytes through an over-approximation of inflate), walkTree/NewTree, NewCommit, readSign, Index.read, Config.load, NewHead, NewRefs/ReadHash, Reflog.load/Show on free byte strings of 0..5 (7..12) bytes and on valid prefixes followed by free bytes, plus every single-byte substitution, deletion and truncation of valid files; a staging-area file that loads must decode faithfully (re-encoded entries = bytes of the file); a tree payload that is accepted must decode faithfully (independent reference decoder)",
         "longer inputs; bit-level corruption of the compressed stream is seen only through the over-approximation"),
 "C20": ("configuration", "Config.Add/Write/load/NewConfig for 1..2 (3) free (section,key,value) triples (values printable with inner single spaces, '=' '[' ']' '#' included) under every explored map iteration order, all 16 local/global combinations, and config/commit at the CLI",
         "values with tabs or leading/trailing blanks, non-ASCII"),
}
ASSUME = ("Trusted base: intrinsic models of everything outside module github.com/JunNishimura/Goit (fmt, strings, strconv, bytes, bufio, io, hex, encoding/binary, regexp via regexp/syntax + symbolic NFA, sort.Slice, os/filepath on an in-memory POSIX-like file system, time, cobra/pflag flag registration), SHA-1 as an injective uninterpreted function (pseudo-digest), zlib as an injective container; validated on every run by replaying sampled paths natively (go test -overlay / real goit binary) assertion by assertion. Bounds as stated; unknown/timeout is reported as undischarged, never as success.")
checks=[]
for pid,(short,code,outside) in P.items():
    checks.append({
      "property_id": pid,
      "quick_cmd": f"/verif/bin/goitsym check --property {pid} --tier quick",
      "thorough_cmd": f"/verif/bin/goitsym check --property {pid} --tier thorough",
      "evidence_file": f"/verif/evidence/{pid}.json",
      "replay_cmd_template": "/verif/bin/goitsym replay {path}",
      "engine": "goitsym",
      "level_claimed": {"category":"model_checking",
         "text": f"Bounded symbolic execution of the real code ({short}): {code}. Every input byte/integer inside the bound is a solver variable; each assertion is discharged by the SMT solver as unsat of (path condition AND NOT assertion) on every feasible path, so the property holds for ALL values inside the bound, not for samples. A sat answer is replayed against the real build before it is reported.",
         "design_ref":"DESIGN.md §3, §5 "+pid+", §11"},
      "level_note": ASSUME+" Outside the claim: "+outside+".",
      "technique": "bounded symbolic execution of go/ssa + SMT (z3, QF_BV; cvc5 cross-check in the thorough tier); counterexamples replayed natively"})
m={"version":1,
 "setup_cmd":"mkdir -p /verif/bin && cd /verif/engine && GOFLAGS=-mod=mod GOPROXY=off GOSUMDB=off GOTOOLCHAIN=local go build -o /verif/bin/goitsym .",
 "hooks":{"guard":"verif","enable":"no hook exists: harnesses are injected by go/packages and `go test -overlay` overlays (harness/*), so /repo carries no instrumentation and the guard is unused","baseline_off_cmd":"cd /repo && GOFLAGS=-mod=mod go test -vet=off -count=1 ./...","source_commits":[],"add_only":True},
 "engines":[{"name":"goitsym","path":"/verif/engine","serves_properties":sorted(P.keys()),"kind_free_text":"symbolic executor for Goit's go/ssa form written for this task: path conditions in SMT-LIB2 (QF_BV) decided by z3 (5.1.0 `z3-new` when present, else 4.8.12) over pipes, thorough tier cross-checked by cvc5; intrinsic models for the standard library, file system, process start, crash and fault indices"}],
 "checks":checks,
 "not_applicable":[],
 "notes":"Each check reloads /repo's current working tree with go/packages (overlaying /verif/harness/**) and rebuilds the SSA on every run; nothing is cached. known_findings.json lists 29 defects found by these checks and repaired by 'fix:' commits in /repo; no unrepaired finding is listed."}
json.dump(m,open('/verif/MANIFEST.json','w'),indent=1)
print("ok",len(checks))
