#!/bin/sh
# usage: tools/run_tier.sh <verif-dir> <tier> [properties...]   (development / background runs; evidence goes under <verif-dir>)
V=$(cd ${1:-/verif} && pwd); T=${2:-thorough}; shift 2
PROPS=${*:-C01 C02 C03 C04 C05 C06 C07 C08 C09 C10 C11 C12 C13 C14 C15 C16 C17 C18 C19 C20}
mkdir -p $V/bin $V/logs
( cd $V/engine && GOFLAGS=-mod=mod GOPROXY=off GOSUMDB=off GOTOOLCHAIN=local go build -o $V/bin/goitsym . ) || exit 2
for p in $PROPS; do
  s=$(date +%s)
  $V/bin/goitsym check --verif $V --repo ${VP_RUN_REPO:-/repo} --property $p --tier $T > $V/logs/$T-$p.log 2>&1
  e=$?
  echo "$p exit=$e wall=$(( $(date +%s) - s ))s $(grep '^property' $V/logs/$T-$p.log | cut -c1-220)"
  grep '^harness' $V/logs/$T-$p.log | cut -c1-260
done
