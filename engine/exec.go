package main

// SSA interpreter over symbolic values.

import (
	"fmt"
	"go/constant"
	"go/token"
	"go/types"
	"os"
	"strings"
	"unsafe"

	"golang.org/x/tools/go/ssa"
)

type Exec struct {
	c               *Ctx
	prog            *ssa.Program
	ld              *Loaded
	globals         map[*ssa.Global]*Value
	steps           int64
	depth           int
	fcount          map[*ssa.Function]int64
	fs              *FS
	proc            *Proc // current process (Layer C), nil in Layer K
	clock           *ClockModel
	cmds            []*Value // cobra commands registered via AddCommand
	flagsOf         map[*Value]*FlagSetObj
	inited          map[*ssa.Package]bool
	params          map[string]int
	mapNondet       bool
	eofErr, ueofErr *Iface
	sentinels       map[string]Iface
	flagOverride    map[string]Value
	snaps           []snapRec
	checkpoints     []*FNode
	extUsed         map[string]bool
	hexOf           map[*Term]*Term
	stdInit         map[*ssa.Package]bool
}

// SymElemPtr addresses element idx (symbolic, already known to be in range) of a scalar-element array or slice:
// loads become ite chains and stores conditional updates, instead of one path per possible index.
type SymElemPtr struct {
	elems []Value
	idx   *Term
}

func allScalar(vs []Value) bool {
	for _, v := range vs {
		if t, ok := v.(*Term); !ok || t == nil {
			return false
		}
	}
	return len(vs) > 0
}

func (x *Exec) symLoad(p SymElemPtr) Value {
	st := x.c.st
	r := p.elems[len(p.elems)-1].(*Term)
	for i := len(p.elems) - 2; i >= 0; i-- {
		r = st.Ite(st.Eq(p.idx, st.Const(p.idx.w, uint64(i))), p.elems[i].(*Term), r)
	}
	return r
}

func (x *Exec) symStore(p SymElemPtr, v Value) {
	st := x.c.st
	nv := v.(*Term)
	for i := range p.elems {
		p.elems[i] = st.Ite(st.Eq(p.idx, st.Const(p.idx.w, uint64(i))), nv, p.elems[i].(*Term))
	}
}

// symIndexOK: for a symbolic index into scalar elements, split only on in-range / out-of-range.
func (x *Exec) symIndexOK(idx *Term, elems []Value) bool {
	if idx.op == OpConst || !allScalar(elems) || len(elems) > 64 {
		return false
	}
	st := x.c.st
	inRange := st.And(st.Cmp(OpSle, st.Const(idx.w, 0), idx), st.Cmp(OpSlt, idx, st.Const(idx.w, uint64(len(elems)))))
	if !x.c.Branch(inRange) {
		x.gopanic("index out of range [symbolic] with length %d", len(elems))
	}
	return true
}

type deferred struct {
	fn   Value
	args []Value
	inv  *ssa.CallCommon
}

// vkey: the data word of an ssa.Value interface (all implementations are pointers) — integer map keys are much
// cheaper to hash than interface keys.
func vkey(v ssa.Value) uintptr { return (*[2]uintptr)(unsafe.Pointer(&v))[1] }

type Frame struct {
	fn     *ssa.Function
	env    map[uintptr]Value
	defers []deferred
	back   int
}

type Intrinsic func(x *Exec, args []Value) Value

var intrinsics = map[string]Intrinsic{}

var dbgIns = os.Getenv("GOITSYM_INS")

// dataPtr is the result of unsafe.SliceData / unsafe.StringData.
type dataPtr struct {
	sl    Slice
	str   Str
	isStr bool
}

// assignInPlace stores src into *dst. Structs and arrays are overwritten element by element, so that addresses of
// fields taken before the store (go/ssa computes &p.f first and then stores the zero value through p) stay valid.
func assignInPlace(dst *Value, src Value) {
	switch s := src.(type) {
	case Struct:
		if d, ok := (*dst).(Struct); ok && len(d) == len(s) {
			for i := range s {
				assignInPlace(&d[i], s[i])
			}
			return
		}
	case Array:
		if d, ok := (*dst).(Array); ok && len(d) == len(s) {
			for i := range s {
				assignInPlace(&d[i], s[i])
			}
			return
		}
	}
	*dst = copyVal(src)
}

func (x *Exec) gopanic(format string, a ...interface{}) {
	if dbgWhere {
		fmt.Fprintf(os.Stderr, "gopanic %s at %s\n", fmt.Sprintf(format, a...), strings.Join(x.c.dbgStack, " > "))
	}
	panic(goPanic{msg: fmt.Sprintf(format, a...)})
}

func (x *Exec) engineErr(format string, a ...interface{}) {
	panic(pathAbort{"engine: " + fmt.Sprintf(format, a...)})
}

func (x *Exec) global(g *ssa.Global) *Value {
	if p, ok := x.globals[g]; ok {
		return p
	}
	if g.Pkg != nil && !strings.HasPrefix(g.Pkg.Pkg.Path(), repoMod) && interpretedStd[g.Pkg.Pkg.Path()] && !x.stdInit[g.Pkg] {
		// first touch of a global of an interpreted std package: run that package's variable initialisers
		x.stdInit[g.Pkg] = true
		if ini := g.Pkg.Func("init"); ini != nil && ini.Blocks != nil {
			x.runStdInit(ini)
		}
		// globals with a fixed model identity (io.EOF …) keep it
		for _, m := range g.Pkg.Members {
			if mg, ok := m.(*ssa.Global); ok {
				if v, ok := x.externGlobal(mg); ok {
					if p, ok := x.globals[mg]; ok {
						*p = v
					}
				}
			}
		}
		if p, ok := x.globals[g]; ok {
			return p
		}
	}
	cell := new(Value)
	elem := g.Type().(*types.Pointer).Elem()
	if v, ok := x.externGlobal(g); ok {
		*cell = v
	} else {
		*cell = x.zero(elem)
	}
	x.globals[g] = cell
	return cell
}

// runStdInit interprets the synthetic init of an interpreted std package (calls to other packages' init are skipped).
func (x *Exec) runStdInit(ini *ssa.Function) {
	x.depth++
	defer func() { x.depth-- }()
	fr := &Frame{fn: ini, env: make(map[uintptr]Value, 32)}
	x.run(fr)
}

func (x *Exec) constVal(c *ssa.Const) Value {
	t := c.Type()
	if c.Value == nil {
		return x.zero(t)
	}
	if tp, ok := t.(*types.TypeParam); ok {
		_ = tp
		x.engineErr("type param const")
	}
	switch u := under(t).(type) {
	case *types.Basic:
		if u.Info()&types.IsString != 0 {
			return x.cstr(constant.StringVal(c.Value))
		}
		if u.Info()&types.IsBoolean != 0 {
			return x.c.st.Bool(constant.BoolVal(c.Value))
		}
		if ii, ok := basicInfo(u); ok {
			if ii.signed {
				return x.c.st.Const(ii.w, uint64(c.Int64()))
			}
			return x.c.st.Const(ii.w, c.Uint64())
		}
		return x.c.st.Const(64, 0)
	}
	x.engineErr("constVal: %s", t)
	return nil
}

func (fr *Frame) get(x *Exec, v ssa.Value) Value {
	switch v := v.(type) {
	case *ssa.Const:
		return x.constVal(v)
	case *ssa.Global:
		return x.global(v)
	case *ssa.Function:
		return v
	case *ssa.Builtin:
		return v
	}
	if r, ok := fr.env[vkey(v)]; ok {
		return r
	}
	x.engineErr("unbound SSA value %s in %s", v.Name(), fr.fn)
	return nil
}

// callFunction runs an SSA function (or intrinsic when it has no body).
func (x *Exec) callFunction(fn *ssa.Function, args []Value, env []Value) Value {
	repoFn := fn.Pkg == nil || strings.HasPrefix(fn.Pkg.Pkg.Path(), repoMod)
	if !repoFn || fn.Blocks == nil {
		if fn.Name() == "init" && fn.Signature.Recv() == nil {
			return nil // initialisers of packages outside the module run lazily (ensureInit) or are modelled by intrinsics
		}
		name := fn.String()
		if in, ok := intrinsics[name]; ok {
			if dbgWhere {
				x.c.dbgStack = append(x.c.dbgStack, name)
				defer func() { x.c.dbgStack = x.c.dbgStack[:len(x.c.dbgStack)-1] }()
			}
			return in(x, args)
		}
		if fn.Blocks == nil || !interpretedStd[fn.Pkg.Pkg.Path()] {
			x.engineErr("unmodelled external function %s", name)
		}
		x.extUsed[name] = true
	}
	x.depth++
	if x.depth > 400 {
		x.c.stats.UnwindFail++
		panic(pathAbort{"unwind: recursion depth exceeded in " + fn.String()})
	}
	defer func() { x.depth-- }()
	if dbgWhere {
		x.c.dbgStack = append(x.c.dbgStack, fn.String())
		defer func() { x.c.dbgStack = x.c.dbgStack[:len(x.c.dbgStack)-1] }()
	}
	fr := &Frame{fn: fn, env: make(map[uintptr]Value, 32)}
	for i, p := range fn.Params {
		fr.env[vkey(p)] = args[i]
	}
	for i, fv := range fn.FreeVars {
		fr.env[vkey(fv)] = env[i]
	}
	return x.run(fr)
}

func (x *Exec) callValue(fv Value, args []Value) Value {
	switch f := fv.(type) {
	case *ssa.Function:
		return x.callFunction(f, args, nil)
	case *Closure:
		return x.callFunction(f.fn, args, f.env)
	case *ssa.Builtin:
		return x.builtin(f, args, nil)
	case nil:
		x.gopanic("call of nil function")
	}
	x.engineErr("callValue: %T", fv)
	return nil
}

func (x *Exec) run(fr *Frame) Value {
	var prev *ssa.BasicBlock
	block := fr.fn.Blocks[0]
	maxBack := x.c.cfg.MaxBackEdges
	if v := x.params["maxBackEdges"]; v > 0 {
		maxBack = v // per-harness unwinding bound (kernels over large concrete data)
	}
	for {
		// phis
		nphi := 0
		var phiVals []Value
		for _, ins := range block.Instrs {
			phi, ok := ins.(*ssa.Phi)
			if !ok {
				break
			}
			nphi++
			for i, p := range block.Preds {
				if p == prev {
					phiVals = append(phiVals, fr.get(x, phi.Edges[i]))
					break
				}
			}
		}
		for i := 0; i < nphi; i++ {
			fr.env[vkey(block.Instrs[i].(*ssa.Phi))] = phiVals[i]
		}
		n := int64(len(block.Instrs) - nphi)
		x.c.where = fr.fn
		x.steps += n
		x.fcount[fr.fn] += n
		if x.steps > x.c.cfg.MaxSteps {
			x.c.stats.UnwindFail++
			panic(pathAbort{"unwind: step budget exceeded in " + fr.fn.String()})
		}
		var next *ssa.BasicBlock
		for _, ins := range block.Instrs[nphi:] {
			if dbgIns != "" && strings.Contains(fr.fn.String(), dbgIns) {
				fmt.Fprintf(os.Stderr, "  [%s] %s\n", fr.fn.Name(), ins)
				if v, ok := ins.(ssa.Value); ok {
					defer func(v ssa.Value) { fmt.Fprintf(os.Stderr, "      %s = %#v\n", v.Name(), fr.env[vkey(v)]) }(v)
				}
			}
			switch ins := ins.(type) {
			case *ssa.If:
				cond := fr.get(x, ins.Cond).(*Term)
				if x.c.Branch(cond) {
					next = block.Succs[0]
				} else {
					next = block.Succs[1]
				}
			case *ssa.Jump:
				next = block.Succs[0]
			case *ssa.Return:
				var res Value
				switch len(ins.Results) {
				case 0:
				case 1:
					res = fr.get(x, ins.Results[0])
				default:
					tp := make(Tuple, len(ins.Results))
					for i, r := range ins.Results {
						tp[i] = fr.get(x, r)
					}
					res = tp
				}
				return res
			case *ssa.Panic:
				v := fr.get(x, ins.X)
				x.gopanic("explicit panic: %s", x.showVal(v))
			case *ssa.RunDefers:
				x.runDefers(fr)
			default:
				x.instr(fr, ins)
			}
		}
		if next == nil {
			x.engineErr("block without terminator in %s", fr.fn)
		}
		if next.Index <= block.Index {
			fr.back++
			if fr.back > maxBack {
				x.c.stats.UnwindFail++
				panic(pathAbort{"unwind: loop bound exceeded in " + fr.fn.String()})
			}
		}
		prev, block = block, next
	}
}

func (x *Exec) runDefers(fr *Frame) {
	for i := len(fr.defers) - 1; i >= 0; i-- {
		d := fr.defers[i]
		if d.inv != nil {
			x.invoke(d.inv, d.fn, d.args)
		} else {
			x.callValue(d.fn, d.args)
		}
	}
	fr.defers = nil
}

func (x *Exec) prepareCall(fr *Frame, cc *ssa.CallCommon) (fv Value, args []Value, inv bool) {
	if cc.IsInvoke() {
		recv := fr.get(x, cc.Value)
		args = make([]Value, 0, len(cc.Args))
		for _, a := range cc.Args {
			args = append(args, fr.get(x, a))
		}
		return recv, args, true
	}
	fv = fr.get(x, cc.Value)
	args = make([]Value, 0, len(cc.Args))
	for _, a := range cc.Args {
		args = append(args, fr.get(x, a))
	}
	return fv, args, false
}

// invoke performs a dynamic (interface) method call.
func (x *Exec) invoke(cc *ssa.CallCommon, recv Value, args []Value) Value {
	ifc, ok := recv.(Iface)
	if !ok {
		x.engineErr("invoke on non-interface %T", recv)
	}
	if ifc.t == nil {
		x.gopanic("invalid memory address or nil pointer dereference (method %s on nil interface)", cc.Method.Name())
	}
	return x.callMethod(ifc, cc.Method.Name(), cc.Method.Pkg(), args)
}

func (x *Exec) callMethod(ifc Iface, name string, pkg *types.Package, args []Value) Value {
	if mo, ok := modelTypeOf(ifc.v); ok {
		key := mo + "." + name
		if in, ok := intrinsics[key]; ok {
			return in(x, append([]Value{ifc.v}, args...))
		}
		x.engineErr("unmodelled method %s", key)
	}
	ms := x.prog.MethodSets.MethodSet(ifc.t)
	sel := ms.Lookup(pkg, name)
	if sel == nil {
		x.engineErr("method %s not found on %s", name, ifc.t)
	}
	fn := x.prog.MethodValue(sel)
	if fn == nil {
		x.engineErr("no MethodValue for %s.%s", ifc.t, name)
	}
	return x.callFunction(fn, append([]Value{ifc.v}, args...), nil)
}

// hasMethod reports whether dynamic type t has method name (used by fmt for Stringer/error).
func (x *Exec) hasMethod(t types.Type, name string) bool {
	ms := x.prog.MethodSets.MethodSet(t)
	for i := 0; i < ms.Len(); i++ {
		if ms.At(i).Obj().Name() == name {
			return true
		}
	}
	return false
}

func (x *Exec) instr(fr *Frame, ins ssa.Instruction) {
	st := x.c.st
	switch ins := ins.(type) {
	case *ssa.DebugRef:
	case *ssa.Alloc:
		cell := new(Value)
		*cell = x.zero(ins.Type().(*types.Pointer).Elem())
		fr.env[vkey(ins)] = cell
	case *ssa.UnOp:
		fr.env[vkey(ins)] = x.unop(fr, ins)
	case *ssa.BinOp:
		fr.env[vkey(ins)] = x.binop(ins.Op, ins.X.Type(), fr.get(x, ins.X), fr.get(x, ins.Y), ins.Y.Type())
	case *ssa.Call:
		fv, args, inv := x.prepareCall(fr, &ins.Call)
		var r Value
		if inv {
			r = x.invoke(&ins.Call, fv, args)
		} else if b, ok := fv.(*ssa.Builtin); ok {
			r = x.builtin(b, args, &ins.Call)
		} else {
			r = x.callValue(fv, args)
		}
		fr.env[vkey(ins)] = r
	case *ssa.Defer:
		fv, args, inv := x.prepareCall(fr, &ins.Call)
		d := deferred{fn: fv, args: args}
		if inv {
			d.inv = &ins.Call
		}
		fr.defers = append(fr.defers, d)
	case *ssa.Go:
		x.engineErr("go statement not supported")
	case *ssa.Store:
		if sp, ok := fr.get(x, ins.Addr).(SymElemPtr); ok {
			x.symStore(sp, fr.get(x, ins.Val))
			break
		}
		p := fr.get(x, ins.Addr).(*Value)
		if p == nil {
			x.gopanic("invalid memory address or nil pointer dereference (store)")
		}
		assignInPlace(p, fr.get(x, ins.Val))
	case *ssa.ChangeType:
		fr.env[vkey(ins)] = fr.get(x, ins.X)
	case *ssa.ChangeInterface:
		fr.env[vkey(ins)] = fr.get(x, ins.X)
	case *ssa.MakeInterface:
		fr.env[vkey(ins)] = Iface{t: ins.X.Type(), v: fr.get(x, ins.X)}
	case *ssa.Convert:
		fr.env[vkey(ins)] = x.convert(ins.X.Type(), ins.Type(), fr.get(x, ins.X))
	case *ssa.Extract:
		fr.env[vkey(ins)] = fr.get(x, ins.Tuple).(Tuple)[ins.Index]
	case *ssa.Field:
		fr.env[vkey(ins)] = fr.get(x, ins.X).(Struct)[ins.Field]
	case *ssa.FieldAddr:
		p := fr.get(x, ins.X).(*Value)
		if p == nil {
			x.gopanic("invalid memory address or nil pointer dereference (field %d of %s)", ins.Field, ins.X.Type())
		}
		s, ok := (*p).(Struct)
		if !ok {
			x.engineErr("FieldAddr on %T (%s)", *p, ins.X.Type())
		}
		fr.env[vkey(ins)] = &s[ins.Field]
	case *ssa.Index:
		xv := fr.get(x, ins.X)
		idx := fr.get(x, ins.Index).(*Term)
		switch xv := xv.(type) {
		case Str:
			if idx.op != OpConst && len(xv.b) > 0 && len(xv.b) <= 64 {
				vs := make([]Value, len(xv.b))
				for i, b := range xv.b {
					vs[i] = b
				}
				if x.symIndexOK(idx, vs) {
					fr.env[vkey(ins)] = x.symLoad(SymElemPtr{vs, idx})
					break
				}
			}
			i := x.index(idx, len(xv.b))
			fr.env[vkey(ins)] = xv.b[i]
		case Array:
			if x.symIndexOK(idx, xv) {
				fr.env[vkey(ins)] = x.symLoad(SymElemPtr{xv, idx})
				break
			}
			i := x.index(idx, len(xv))
			fr.env[vkey(ins)] = xv[i]
		default:
			x.engineErr("Index on %T", xv)
		}
	case *ssa.IndexAddr:
		xv := fr.get(x, ins.X)
		idx := fr.get(x, ins.Index).(*Term)
		switch xv := xv.(type) {
		case Slice:
			if x.symIndexOK(idx, xv.a) {
				fr.env[vkey(ins)] = SymElemPtr{xv.a, idx}
				break
			}
			i := x.index(idx, len(xv.a))
			fr.env[vkey(ins)] = &xv.a[i]
		case *Value:
			if xv == nil {
				x.gopanic("nil pointer dereference (index of nil array pointer)")
			}
			a := (*xv).(Array)
			if x.symIndexOK(idx, a) {
				fr.env[vkey(ins)] = SymElemPtr{a, idx}
				break
			}
			i := x.index(idx, len(a))
			fr.env[vkey(ins)] = &a[i]
		default:
			x.engineErr("IndexAddr on %T", xv)
		}
	case *ssa.Slice:
		fr.env[vkey(ins)] = x.slice(fr, ins)
	case *ssa.MakeSlice:
		n := fr.get(x, ins.Len).(*Term)
		cp := fr.get(x, ins.Cap).(*Term)
		if ii, ok := basicInfo(ins.Len.Type()); ok && n.w < 64 {
			if ii.signed {
				n = x.c.st.Sext(n, 64)
			} else {
				n = x.c.st.Zext(n, 64)
			}
		}
		ln := x.allocLen(n)
		cn := ln
		if cp.op == OpConst {
			if c := sval(cp.w, cp.k); c < int64(ln) && ins.Cap != ins.Len {
				x.gopanic("makeslice: cap out of range")
			} else if int(c) > ln {
				if c > 1<<26 {
					x.engineErr("make() with capacity %d", c)
				}
				cn = int(c)
			}
		} else if ins.Cap != ins.Len {
			c64 := cp
			if ii, ok := basicInfo(ins.Cap.Type()); ok && cp.w < 64 {
				if ii.signed {
					c64 = x.c.st.Sext(cp, 64)
				} else {
					c64 = x.c.st.Zext(cp, 64)
				}
			}
			if x.c.Branch(x.c.st.Cmp(OpSlt, c64, x.intConst(int64(ln)))) {
				x.gopanic("makeslice: cap out of range")
			}
			if x.c.Branch(x.c.st.Cmp(OpSlt, x.intConst(1<<26), c64)) {
				x.gopanic("makeslice: capacity taken from input may exceed 64 MiB (cap out of range / unbounded allocation)")
			}
		}
		elem := under(ins.Type()).(*types.Slice).Elem()
		a := make([]Value, ln, cn)
		for i := range a {
			a[i] = x.zero(elem)
		}
		fr.env[vkey(ins)] = Slice{a: a}
	case *ssa.MakeMap:
		fr.env[vkey(ins)] = &MapV{}
	case *ssa.MapUpdate:
		m := fr.get(x, ins.Map).(*MapV)
		if m == nil {
			x.gopanic("assignment to entry in nil map")
		}
		k := fr.get(x, ins.Key)
		v := copyVal(fr.get(x, ins.Value))
		if i := x.mapFind(m, k); i >= 0 {
			m.vals[i] = v
		} else {
			m.keys = append(m.keys, k)
			m.vals = append(m.vals, v)
		}
	case *ssa.Lookup:
		m := fr.get(x, ins.X).(*MapV)
		k := fr.get(x, ins.Index)
		vt := under(ins.X.Type()).(*types.Map).Elem()
		var v Value
		found := false
		if m != nil {
			if i := x.mapFind(m, k); i >= 0 {
				v, found = m.vals[i], true
			}
		}
		if !found {
			v = x.zero(vt)
		}
		if ins.CommaOk {
			fr.env[vkey(ins)] = Tuple{v, st.Bool(found)}
		} else {
			fr.env[vkey(ins)] = v
		}
	case *ssa.MakeClosure:
		env := make([]Value, len(ins.Bindings))
		for i, b := range ins.Bindings {
			env[i] = fr.get(x, b)
		}
		fr.env[vkey(ins)] = &Closure{fn: ins.Fn.(*ssa.Function), env: env}
	case *ssa.Range:
		xv := fr.get(x, ins.X)
		switch xv := xv.(type) {
		case *MapV:
			it := &rangeIter{}
			if xv != nil {
				it.keys = append([]Value{}, xv.keys...)
				it.vals = append([]Value{}, xv.vals...)
				if x.mapNondet && len(it.keys) > 1 {
					// Go's iteration order is unspecified: explore every rotation and the reversal
					n := len(it.keys)
					r := x.c.Choose(2*n, "map-order")
					rot, rev := r%n, r >= n
					ks := make([]Value, n)
					vs := make([]Value, n)
					for i := 0; i < n; i++ {
						j := (i + rot) % n
						if rev {
							j = (n - 1 - i + rot) % n
						}
						ks[i], vs[i] = it.keys[j], it.vals[j]
					}
					it.keys, it.vals = ks, vs
				}
			}
			fr.env[vkey(ins)] = it
		case Str:
			s := xv
			fr.env[vkey(ins)] = &rangeIter{s: &s}
		default:
			x.engineErr("Range on %T", xv)
		}
	case *ssa.Next:
		it := fr.get(x, ins.Iter).(*rangeIter)
		if ins.IsString {
			if it.i >= len(it.s.b) {
				fr.env[vkey(ins)] = Tuple{st.False, x.intConst(0), st.Const(32, 0)}
			} else {
				b := it.s.b[it.i]
				if b.op == OpConst && b.k >= 0x80 {
					x.engineErr("range over non-ASCII string not modelled")
				}
				fr.env[vkey(ins)] = Tuple{st.True, x.intConst(int64(it.i)), st.Zext(b, 32)}
				it.i++
			}
		} else {
			if it.i >= len(it.keys) {
				fr.env[vkey(ins)] = Tuple{st.False, nil, nil}
			} else {
				fr.env[vkey(ins)] = Tuple{st.True, it.keys[it.i], it.vals[it.i]}
				it.i++
			}
		}
	case *ssa.TypeAssert:
		v := fr.get(x, ins.X).(Iface)
		ok := false
		if v.t != nil {
			if types.IsInterface(ins.AssertedType) {
				ok = types.AssignableTo(v.t, ins.AssertedType) || types.Implements(v.t, under(ins.AssertedType).(*types.Interface))
			} else {
				ok = types.Identical(v.t, ins.AssertedType)
			}
		}
		var res Value
		if ok {
			if types.IsInterface(ins.AssertedType) {
				res = v
			} else {
				res = v.v
			}
		} else {
			if !ins.CommaOk {
				x.gopanic("interface conversion: type assertion to %s failed", ins.AssertedType)
			}
			res = x.zero(ins.AssertedType)
		}
		if ins.CommaOk {
			fr.env[vkey(ins)] = Tuple{res, st.Bool(ok)}
		} else {
			fr.env[vkey(ins)] = res
		}
	default:
		x.engineErr("unsupported SSA instruction %T in %s", ins, fr.fn)
	}
}

// allocLen concretises a make() length. Lengths above the allocation guard are represented by guard+1.
const allocGuard = 96

func (x *Exec) allocLen(n *Term) int {
	if n.op == OpConst {
		v := sval(n.w, n.k)
		if v < 0 {
			x.gopanic("makeslice: len out of range")
		}
		if v > 1<<20 {
			x.engineErr("make() of %d elements", v)
		}
		return int(v)
	}
	st := x.c.st
	lim := int64(allocGuard)
	if p, ok := x.params["allocGuard"]; ok {
		lim = int64(p)
	}
	if x.c.Branch(st.Cmp(OpSlt, n, st.Const(n.w, 0))) {
		x.gopanic("makeslice: len out of range")
	}
	if x.c.Branch(st.Cmp(OpSlt, st.Const(n.w, 1<<26), n)) {
		x.gopanic("makeslice: length taken from input may exceed 64 MiB (len out of range / unbounded allocation)")
	}
	if x.c.Branch(st.Cmp(OpSlt, st.Const(n.w, uint64(lim)), n)) {
		x.c.notes = append(x.c.notes, "oversized allocation (symbolic length above guard)")
		return int(lim) + 1
	}
	v := x.concInt(n, 0, lim, "make length")
	return int(v)
}

func (x *Exec) index(idx *Term, n int) int {
	if idx.op == OpConst {
		v := sval(idx.w, idx.k)
		if v < 0 || v >= int64(n) {
			x.gopanic("index out of range [%d] with length %d", v, n)
		}
		return int(v)
	}
	st := x.c.st
	for i := 0; i < n; i++ {
		if x.c.Branch(st.Eq(idx, st.Const(idx.w, uint64(i)))) {
			return i
		}
	}
	x.gopanic("index out of range [symbolic] with length %d", n)
	return 0
}

// bound concretises a slice bound in [0,max]; out of range panics.
func (x *Exec) bound(t *Term, max int, what string) int {
	if t.op == OpConst {
		v := sval(t.w, t.k)
		if v < 0 || v > int64(max) {
			x.gopanic("slice bounds out of range [%s %d] with capacity %d", what, v, max)
		}
		return int(v)
	}
	st := x.c.st
	for i := 0; i <= max; i++ {
		if x.c.Branch(st.Eq(t, st.Const(t.w, uint64(i)))) {
			return i
		}
	}
	x.gopanic("slice bounds out of range [%s symbolic] with capacity %d", what, max)
	return 0
}

func (x *Exec) slice(fr *Frame, ins *ssa.Slice) Value {
	xv := fr.get(x, ins.X)
	var lo, hi, mx *Term
	if ins.Low != nil {
		lo = fr.get(x, ins.Low).(*Term)
	}
	if ins.High != nil {
		hi = fr.get(x, ins.High).(*Term)
	}
	if ins.Max != nil {
		mx = fr.get(x, ins.Max).(*Term)
	}
	switch xv := xv.(type) {
	case Str:
		n := len(xv.b)
		h := n
		if hi != nil {
			h = x.bound(hi, n, "high")
		}
		l := 0
		if lo != nil {
			l = x.bound(lo, h, "low")
		}
		return Str{xv.b[l:h:h]}
	case Slice:
		c := cap(xv.a)
		m := c
		if mx != nil {
			m = x.bound(mx, c, "max")
		}
		h := len(xv.a)
		if hi != nil {
			h = x.bound(hi, m, "high")
		}
		l := 0
		if lo != nil {
			l = x.bound(lo, h, "low")
		}
		if xv.a == nil {
			return Slice{}
		}
		return Slice{a: xv.a[l:h:m], tag: xv.tag}
	case *Value:
		if xv == nil {
			x.gopanic("nil pointer dereference (slice of nil array pointer)")
		}
		a := (*xv).(Array)
		c := len(a)
		m := c
		if mx != nil {
			m = x.bound(mx, c, "max")
		}
		h := c
		if hi != nil {
			h = x.bound(hi, m, "high")
		}
		l := 0
		if lo != nil {
			l = x.bound(lo, h, "low")
		}
		return Slice{a: []Value(a)[l:h:m]}
	}
	x.engineErr("Slice on %T", xv)
	return nil
}

func (x *Exec) mapFind(m *MapV, k Value) int {
	for i, mk := range m.keys {
		if x.c.Branch(x.eqVal(mk, k)) {
			return i
		}
	}
	return -1
}

func (x *Exec) unop(fr *Frame, ins *ssa.UnOp) Value {
	st := x.c.st
	v := fr.get(x, ins.X)
	switch ins.Op {
	case token.MUL:
		if sp, ok := v.(SymElemPtr); ok {
			return x.symLoad(sp)
		}
		p, ok := v.(*Value)
		if !ok {
			x.engineErr("load through %T", v)
		}
		if p == nil {
			x.gopanic("invalid memory address or nil pointer dereference (load %s)", ins.X.Type())
		}
		r := copyVal(*p)
		if ins.CommaOk {
			x.engineErr("commaok load")
		}
		return r
	case token.NOT:
		return st.Not(v.(*Term))
	case token.SUB:
		t := v.(*Term)
		return st.Bin(OpSub, st.Const(t.w, 0), t)
	case token.XOR:
		t := v.(*Term)
		return st.Bin(OpBXor, t, st.Const(t.w, mask(t.w)))
	}
	x.engineErr("unop %s", ins.Op)
	return nil
}

func (x *Exec) binop(op token.Token, xt types.Type, a, b Value, yt types.Type) Value {
	st := x.c.st
	switch av := a.(type) {
	case *Term:
		bv, ok := b.(*Term)
		if !ok {
			x.engineErr("binop %s on term and %T", op, b)
		}
		if av.w == 0 { // bool
			switch op {
			case token.EQL:
				return st.Eq(av, bv)
			case token.NEQ:
				return st.Not(st.Eq(av, bv))
			case token.AND, token.LAND:
				return st.And(av, bv)
			case token.OR, token.LOR:
				return st.Or(av, bv)
			}
			x.engineErr("bool binop %s", op)
		}
		ii, _ := basicInfo(xt)
		signed := ii.signed
		switch op {
		case token.SHL, token.SHR:
			// shift count may have a different width
			if bv.w != av.w {
				if bv.w > av.w {
					// large counts shift everything out; clamp
					big := st.Cmp(OpUle, st.Const(bv.w, uint64(av.w)), bv)
					lowb := st.Extract(bv, av.w-1, 0)
					bv = st.Ite(big, st.Const(av.w, uint64(av.w)), lowb)
				} else {
					bv = st.Zext(bv, av.w)
				}
			}
			if op == token.SHL {
				return st.Bin(OpShl, av, bv)
			}
			if signed {
				return st.Bin(OpAShr, av, bv)
			}
			return st.Bin(OpLShr, av, bv)
		}
		if av.w != bv.w {
			x.engineErr("binop %s width mismatch %d/%d", op, av.w, bv.w)
		}
		switch op {
		case token.ADD:
			return st.Bin(OpAdd, av, bv)
		case token.SUB:
			return st.Bin(OpSub, av, bv)
		case token.MUL:
			return st.Bin(OpMul, av, bv)
		case token.QUO, token.REM:
			if x.c.Branch(st.Eq(bv, st.Const(bv.w, 0))) {
				x.gopanic("integer divide by zero")
			}
			if op == token.QUO {
				if signed {
					return st.Bin(OpSDiv, av, bv)
				}
				return st.Bin(OpUDiv, av, bv)
			}
			if signed {
				return st.Bin(OpSRem, av, bv)
			}
			return st.Bin(OpURem, av, bv)
		case token.AND:
			return st.Bin(OpBAnd, av, bv)
		case token.OR:
			return st.Bin(OpBOr, av, bv)
		case token.XOR:
			return st.Bin(OpBXor, av, bv)
		case token.AND_NOT:
			return st.Bin(OpBAnd, av, st.Bin(OpBXor, bv, st.Const(bv.w, mask(bv.w))))
		case token.EQL:
			return st.Eq(av, bv)
		case token.NEQ:
			return st.Not(st.Eq(av, bv))
		case token.LSS:
			if signed {
				return st.Cmp(OpSlt, av, bv)
			}
			return st.Cmp(OpUlt, av, bv)
		case token.LEQ:
			if signed {
				return st.Cmp(OpSle, av, bv)
			}
			return st.Cmp(OpUle, av, bv)
		case token.GTR:
			if signed {
				return st.Cmp(OpSlt, bv, av)
			}
			return st.Cmp(OpUlt, bv, av)
		case token.GEQ:
			if signed {
				return st.Cmp(OpSle, bv, av)
			}
			return st.Cmp(OpUle, bv, av)
		}
		x.engineErr("int binop %s", op)
	case Str:
		bs := b.(Str)
		switch op {
		case token.ADD:
			nb := make([]*Term, 0, len(av.b)+len(bs.b))
			nb = append(nb, av.b...)
			nb = append(nb, bs.b...)
			return Str{nb}
		case token.EQL:
			return x.eqVal(av, bs)
		case token.NEQ:
			return st.Not(x.eqVal(av, bs))
		case token.LSS:
			return x.strLess(av, bs, false)
		case token.LEQ:
			return x.strLess(av, bs, true)
		case token.GTR:
			return x.strLess(bs, av, false)
		case token.GEQ:
			return x.strLess(bs, av, true)
		}
		x.engineErr("string binop %s", op)
	}
	switch op {
	case token.EQL:
		return x.eqVal(a, b)
	case token.NEQ:
		return st.Not(x.eqVal(a, b))
	}
	x.engineErr("binop %s on %T", op, a)
	return nil
}

func (x *Exec) convert(from, to types.Type, v Value) Value {
	st := x.c.st
	if fi, ok := basicInfo(from); ok {
		if ti, ok := basicInfo(to); ok {
			t := v.(*Term)
			if ti.w == fi.w {
				return t
			}
			if ti.w < fi.w {
				return st.Extract(t, ti.w-1, 0)
			}
			if fi.signed {
				return st.Sext(t, ti.w)
			}
			return st.Zext(t, ti.w)
		}
		if isString(to) {
			// string(rune)
			t := v.(*Term)
			if t.op == OpConst && t.k < 0x80 {
				return Str{[]*Term{st.Const(8, t.k)}}
			}
			x.engineErr("string(rune) of non-ASCII/symbolic rune")
		}
	}
	if isString(from) {
		if _, ok := under(to).(*types.Slice); ok {
			s := v.(Str)
			return x.bytesSlice(s.b)
		}
		if isString(to) {
			return v
		}
	}
	if _, ok := under(from).(*types.Slice); ok && isString(to) {
		sl := v.(Slice)
		b := make([]*Term, len(sl.a))
		for i, e := range sl.a {
			b[i] = e.(*Term)
		}
		return Str{b}
	}
	if _, ok := under(from).(*types.Slice); ok {
		if _, ok := under(to).(*types.Slice); ok {
			return v
		}
	}
	if _, ok := under(from).(*types.Pointer); ok {
		return v
	}
	if b, ok := under(from).(*types.Basic); ok && b.Kind() == types.UnsafePointer {
		// unsafe.Pointer -> *T: the model pointer passes through (used by the standard library for self-references)
		if _, ok := under(to).(*types.Pointer); ok {
			return v
		}
	}
	if b, ok := under(to).(*types.Basic); ok && b.Info()&types.IsFloat != 0 {
		return st.Const(64, 0)
	}
	x.engineErr("convert %s -> %s", from, to)
	return nil
}

func (x *Exec) builtin(b *ssa.Builtin, args []Value, cc *ssa.CallCommon) Value {
	st := x.c.st
	switch b.Name() {
	case "len":
		switch a := args[0].(type) {
		case Str:
			return x.intConst(int64(len(a.b)))
		case Slice:
			return x.intConst(int64(len(a.a)))
		case *MapV:
			if a == nil {
				return x.intConst(0)
			}
			return x.intConst(int64(len(a.keys)))
		case Array:
			return x.intConst(int64(len(a)))
		case *Value:
			return x.intConst(int64(len((*a).(Array))))
		}
	case "cap":
		switch a := args[0].(type) {
		case Slice:
			return x.intConst(int64(cap(a.a)))
		case Array:
			return x.intConst(int64(len(a)))
		}
	case "append":
		dst := args[0].(Slice)
		switch src := args[1].(type) {
		case Slice:
			if len(src.a) == 0 {
				return dst
			}
			na := append(dst.a, src.a...)
			return Slice{a: na}
		case Str:
			if len(src.b) == 0 {
				return dst
			}
			na := dst.a
			for _, t := range src.b {
				na = append(na, t)
			}
			return Slice{a: na}
		}
	case "copy":
		dst := args[0].(Slice)
		n := 0
		switch src := args[1].(type) {
		case Slice:
			n = copy(dst.a, src.a)
		case Str:
			for n < len(dst.a) && n < len(src.b) {
				dst.a[n] = src.b[n]
				n++
			}
		}
		return x.intConst(int64(n))
	case "delete":
		m := args[0].(*MapV)
		if m != nil {
			if i := x.mapFind(m, args[1]); i >= 0 {
				m.keys = append(m.keys[:i:i], m.keys[i+1:]...)
				m.vals = append(m.vals[:i:i], m.vals[i+1:]...)
			}
		}
		return nil
	case "print", "println":
		return nil
	case "SliceData":
		// unsafe.SliceData: a handle on the slice's elements (only consumed by unsafe.String / unsafe.Slice)
		if sl, ok := args[0].(Slice); ok {
			return dataPtr{sl: sl}
		}
	case "StringData":
		if s, ok := args[0].(Str); ok {
			return dataPtr{str: s, isStr: true}
		}
	case "String":
		// unsafe.String(ptr, len)
		if dp, ok := args[0].(dataPtr); ok {
			n := int(x.concInt(args[1].(*Term), 0, 1<<20, "unsafe.String length"))
			out := make([]*Term, n)
			for i := 0; i < n; i++ {
				if dp.isStr {
					out[i] = dp.str.b[i]
				} else {
					out[i] = dp.sl.a[i].(*Term)
				}
			}
			return Str{out}
		}
	case "Slice":
		// unsafe.Slice(ptr, len) over string data: a fresh byte slice with the same bytes (never written through by the callers)
		if dp, ok := args[0].(dataPtr); ok {
			n := int(x.concInt(args[1].(*Term), 0, 1<<20, "unsafe.Slice length"))
			out := make([]Value, n)
			for i := 0; i < n; i++ {
				if dp.isStr {
					out[i] = dp.str.b[i]
				} else {
					out[i] = dp.sl.a[i]
				}
			}
			return Slice{a: out}
		}
	case "min", "max":
		// integer operands (Go 1.21 builtins); signedness from the static type of the call
		if t0, ok := args[0].(*Term); ok && cc != nil {
			ii, okT := basicInfo(cc.Args[0].Type())
			if okT {
				r := t0
				for _, a := range args[1:] {
					t := a.(*Term)
					op := OpUlt
					if ii.signed {
						op = OpSlt
					}
					lt := st.Cmp(op, t, r) // t < r
					if b.Name() == "max" {
						lt = st.Cmp(op, r, t) // r < t
					}
					r = st.Ite(lt, t, r)
				}
				return r
			}
		}
	case "ssa:wrapnilchk":
		p, _ := args[0].(*Value)
		if p == nil {
			if _, isPtr := args[0].(*Value); isPtr {
				x.gopanic("value method called using nil pointer")
			}
		}
		return args[0]
	}
	_ = st
	x.engineErr("builtin %s on %T", b.Name(), args[0])
	return nil
}

func (x *Exec) showVal(v Value) string {
	switch v := v.(type) {
	case Str:
		return v.show()
	case *Term:
		return v.String()
	case Iface:
		if v.t == nil {
			return "<nil>"
		}
		if e, ok := v.v.(*ErrObj); ok {
			return e.msg.show()
		}
		return x.showVal(v.v)
	}
	return strings.TrimSpace(fmt.Sprintf("%T", v))
}
