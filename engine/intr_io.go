package main

// Intrinsic models: bytes, bufio, io, compress/zlib, crypto/sha1, encoding/binary.

import (
	"crypto/sha1"
	"fmt"
	"go/types"
	"os"
)

type BufObj struct {
	data []*Term
	z    *zTag
}
type ReaderObj struct {
	data []*Term
	pos  int
}
type ZWriterObj struct {
	dst Value // *BufObj (or other writer)
	acc []*Term
}
type ZReaderObj struct {
	payload   []*Term
	pos       int
	shortUsed bool
	tailErr   bool // stream ends with a checksum / unexpected-EOF error instead of clean EOF
}

// LimitObj models *io.LimitedReader (concrete limit).
type LimitObj struct {
	r Iface
	n int64
}

type TeeObj struct {
	r Iface
	w Iface
}
type HashObj struct{ acc []*Term }
type ScannerObj struct {
	src    Iface
	loaded bool
	data   []*Term
	pos    int
	tok    []*Term
	done   bool
	err    Iface
}

func (x *Exec) readFrom(r Iface, dst Slice) (int, Iface) {
	res := x.callMethod(r, "Read", nil, []Value{dst}).(Tuple)
	n := res[0].(*Term)
	return int(sval(n.w, n.k)), res[1].(Iface)
}

// readAll drains a reader model.
func (x *Exec) readAll(r Iface) ([]*Term, Iface) {
	var out []*Term
	for iter := 0; ; iter++ {
		buf := Slice{a: make([]Value, 64)}
		n, err := x.readFrom(r, buf)
		for i := 0; i < n; i++ {
			out = append(out, buf.a[i].(*Term))
		}
		if err.t != nil {
			if e, ok := err.v.(*ErrObj); ok && e.kind == "EOF" {
				return out, nilErr
			}
			return out, err
		}
		if iter > 100000 {
			x.engineErr("readAll: reader never ends")
		}
	}
}

func (x *Exec) shaSum(in []*Term) []*Term {
	st := x.c.st
	allConst := true
	for _, t := range in {
		if t.op != OpConst {
			allConst = false
			break
		}
	}
	var out []*Term
	if allConst {
		raw := make([]byte, len(in))
		for i, t := range in {
			raw[i] = byte(t.k)
		}
		sum := sha1.Sum(raw)
		for _, b := range sum {
			out = append(out, st.Const(8, uint64(b)))
		}
	} else {
		// reuse the output of a syntactically identical earlier application
		for _, app := range x.c.shaApps {
			if len(app.in) == len(in) {
				same := true
				for i := range in {
					if app.in[i] != in[i] {
						same = false
						break
					}
				}
				if same {
					return app.out
				}
			}
		}
		if x.params["freeDigest"] == 0 {
			// pseudo-digest: a fixed injective interpretation of the uninterpreted function. The digest of a symbolic input is a
			// fresh constant, unless the input equals an earlier input (then that digest): functional consistency and collision
			// freedom hold by construction and comparisons between digests fold to comparisons between inputs.
			k := sha1.Sum([]byte(fmt.Sprintf("goitsym pseudo-digest #%d len %d", len(x.c.shaApps), len(in))))
			for _, b := range k {
				out = append(out, st.Const(8, uint64(b)))
			}
			for j := len(x.c.shaApps) - 1; j >= 0; j-- {
				app := x.c.shaApps[j]
				if len(app.in) != len(in) {
					continue
				}
				inEq := st.True
				for i := range in {
					inEq = st.And(inEq, st.Eq(app.in[i], in[i]))
					if inEq.IsFalse() {
						break
					}
				}
				if inEq.IsFalse() {
					continue
				}
				for i := 0; i < 20; i++ {
					out[i] = st.Ite(inEq, app.out[i], out[i])
				}
			}
			x.c.shaApps = append(x.c.shaApps, shaApp{in: append([]*Term{}, in...), out: out})
			return out
		}
		for i := 0; i < 20; i++ {
			out = append(out, x.c.FreshVar("sha", 8, nil))
		}
	}
	if x.params["freeDigest"] == 0 {
		// a concrete input may coincide with an earlier symbolic one: then it has that application's digest
		for j := len(x.c.shaApps) - 1; j >= 0; j-- {
			app := x.c.shaApps[j]
			if len(app.in) != len(in) || app.concrete {
				continue
			}
			inEq := st.True
			for i := range in {
				inEq = st.And(inEq, st.Eq(app.in[i], in[i]))
				if inEq.IsFalse() {
					break
				}
			}
			if inEq.IsFalse() {
				continue
			}
			// case split rather than ite: both sides keep concrete ids (and concrete object paths) downstream
			if x.c.Branch(inEq) {
				out = app.out
				break
			}
		}
		x.c.shaApps = append(x.c.shaApps, shaApp{in: append([]*Term{}, in...), out: out, concrete: true})
		return out
	}
	// Ackermann-style axioms: functional consistency + collision freedom w.r.t. every earlier application
	for _, app := range x.c.shaApps {
		outEq := st.True
		for i := 0; i < 20; i++ {
			outEq = st.And(outEq, st.Eq(app.out[i], out[i]))
		}
		var ax *Term
		if len(app.in) != len(in) {
			ax = st.Not(outEq)
		} else {
			inEq := st.True
			for i := range in {
				inEq = st.And(inEq, st.Eq(app.in[i], in[i]))
			}
			ax = st.Eq(inEq, outEq)
			if inEq.IsConst() && outEq.IsConst() {
				continue
			}
		}
		if !ax.IsTrue() {
			x.c.Assume(ax)
		}
	}
	x.c.shaApps = append(x.c.shaApps, shaApp{in: append([]*Term{}, in...), out: out})
	return out
}

func init() {
	intrinsics["bytes.NewReader"] = func(x *Exec, a []Value) Value { return &ReaderObj{data: x.strOf(a[0]).b} }
	readerRead := func(x *Exec, a []Value) Value {
		r := a[0].(*ReaderObj)
		dst := a[1].(Slice)
		if r.pos >= len(r.data) {
			if len(dst.a) == 0 {
				return Tuple{x.intConst(0), nilErr}
			}
			return Tuple{x.intConst(0), x.errEOF()}
		}
		n := 0
		for n < len(dst.a) && r.pos < len(r.data) {
			dst.a[n] = r.data[r.pos]
			n++
			r.pos++
		}
		return Tuple{x.intConst(int64(n)), nilErr}
	}
	intrinsics["(*bytes.Reader).Read"] = readerRead
	intrinsics["*bytes.Reader.Read"] = readerRead
	intrinsics["(*bytes.Buffer).Bytes"] = func(x *Exec, a []Value) Value {
		b := deref(a[0]).(*BufObj)
		if b.z != nil {
			arr := make([]Value, len(b.z.payload)+11)
			for i := range arr {
				arr[i] = x.c.st.Const(8, 0)
			}
			return Slice{a: arr, tag: b.z}
		}
		return x.bytesSlice(b.data)
	}
	intrinsics["*bytes.Buffer.Write"] = func(x *Exec, a []Value) Value {
		b := deref(a[0]).(*BufObj)
		s := a[1].(Slice)
		for _, e := range s.a {
			b.data = append(b.data, e.(*Term))
		}
		return Tuple{x.intConst(int64(len(s.a))), nilErr}
	}

	if os.Getenv("GOITSYM_INTRSCANNER") == "" { // default: bufio.Scanner is interpreted from its own SSA (real buffering, Bytes aliasing, token limit)
		defer func() {
			for _, k := range []string{"bufio.NewScanner", "(*bufio.Scanner).Scan", "(*bufio.Scanner).Err", "(*bufio.Scanner).Text"} {
				delete(intrinsics, k)
			}
		}()
	}
	intrinsics["bufio.NewScanner"] = func(x *Exec, a []Value) Value { return &ScannerObj{src: a[0].(Iface)} }
	intrinsics["(*bufio.Scanner).Scan"] = func(x *Exec, a []Value) Value {
		s := a[0].(*ScannerObj)
		st := x.c.st
		if !s.loaded {
			s.loaded = true
			data, err := x.readAll(s.src)
			s.err = err // a read error ends scanning after the data read so far; Scanner.Err reports it
			s.data = data
		}
		if s.done || s.pos >= len(s.data) {
			s.done = true
			return st.False
		}
		// ScanLines: up to '\n' (dropped), trailing '\r' dropped; final unterminated line returned as is (minus '\r')
		i := s.pos
		for i < len(s.data) && !x.c.Branch(st.Eq(s.data[i], st.Const(8, '\n'))) {
			i++
		}
		if i-s.pos >= 64*1024 {
			s.done = true // bufio.ErrTooLong
			s.err = x.newErrS("bufio.Scanner: token too long", "ETOOLONG")
			return st.False
		}
		tok := s.data[s.pos:i:i]
		if len(tok) > 0 && x.c.Branch(st.Eq(tok[len(tok)-1], st.Const(8, '\r'))) {
			tok = tok[: len(tok)-1 : len(tok)-1]
		}
		s.tok = tok
		if i < len(s.data) {
			s.pos = i + 1
		} else {
			s.pos = i
		}
		return st.True
	}
	intrinsics["(*bufio.Scanner).Err"] = func(x *Exec, a []Value) Value { return a[0].(*ScannerObj).err }
	intrinsics["(*bufio.Scanner).Text"] = func(x *Exec, a []Value) Value { return Str{a[0].(*ScannerObj).tok} }

	intrinsics["io.ReadAll"] = func(x *Exec, a []Value) Value {
		data, err := x.readAll(a[0].(Iface))
		sl := x.bytesSlice(data)
		if sl.a == nil {
			sl.a = []Value{}
		}
		return Tuple{sl, err}
	}
	intrinsics["io.TeeReader"] = func(x *Exec, a []Value) Value {
		return Iface{t: errorType, v: &TeeObj{r: a[0].(Iface), w: a[1].(Iface)}}
	}
	intrinsics["io.teeReader.Read"] = func(x *Exec, a []Value) Value {
		t := a[0].(*TeeObj)
		dst := a[1].(Slice)
		n, err := x.readFrom(t.r, dst)
		if n > 0 {
			x.callMethod(t.w, "Write", nil, []Value{Slice{a: dst.a[:n]}})
		}
		return Tuple{x.intConst(int64(n)), err}
	}
	intrinsics["io.LimitReader"] = func(x *Exec, a []Value) Value {
		n := a[1].(*Term)
		lim := x.concInt(n, 0, 64, "io.LimitReader limit")
		return Iface{t: errorType, v: &LimitObj{r: a[0].(Iface), n: lim}}
	}
	intrinsics["*io.LimitedReader.Read"] = func(x *Exec, a []Value) Value {
		l := a[0].(*LimitObj)
		dst := a[1].(Slice)
		if l.n <= 0 {
			return Tuple{x.intConst(0), x.errEOF()}
		}
		if int64(len(dst.a)) > l.n {
			dst = Slice{a: dst.a[:l.n]}
		}
		n, err := x.readFrom(l.r, dst)
		l.n -= int64(n)
		return Tuple{x.intConst(int64(n)), err}
	}
	intrinsics["io.WriteString"] = func(x *Exec, a []Value) Value {
		s := a[1].(Str)
		return x.callMethod(a[0].(Iface), "Write", nil, []Value{x.bytesSlice(s.b)})
	}

	// ---- crypto/sha1 ----
	intrinsics["crypto/sha1.New"] = func(x *Exec, a []Value) Value { return Iface{t: errorType, v: &HashObj{}} }
	intrinsics["hash.Hash.Write"] = func(x *Exec, a []Value) Value {
		h := a[0].(*HashObj)
		s := a[1].(Slice)
		for _, e := range s.a {
			h.acc = append(h.acc, e.(*Term))
		}
		return Tuple{x.intConst(int64(len(s.a))), nilErr}
	}
	intrinsics["hash.Hash.Sum"] = func(x *Exec, a []Value) Value {
		h := a[0].(*HashObj)
		prefix := a[1].(Slice)
		out := x.shaSum(h.acc)
		res := append([]Value{}, prefix.a...)
		for _, t := range out {
			res = append(res, t)
		}
		return Slice{a: res}
	}

	// ---- compress/zlib ----
	intrinsics["compress/zlib.NewWriter"] = func(x *Exec, a []Value) Value {
		return &ZWriterObj{dst: deref(a[0].(Iface).v)}
	}
	intrinsics["(*compress/zlib.Writer).Write"] = func(x *Exec, a []Value) Value {
		w := a[0].(*ZWriterObj)
		s := a[1].(Slice)
		for _, e := range s.a {
			w.acc = append(w.acc, e.(*Term))
		}
		return Tuple{x.intConst(int64(len(s.a))), nilErr}
	}
	intrinsics["(*compress/zlib.Writer).Close"] = func(x *Exec, a []Value) Value {
		w := a[0].(*ZWriterObj)
		b, ok := w.dst.(*BufObj)
		if !ok {
			x.engineErr("zlib.Writer over %T", w.dst)
		}
		b.z = &zTag{payload: append([]*Term{}, w.acc...)}
		return nilErr
	}
	intrinsics["compress/zlib.NewReader"] = func(x *Exec, a []Value) Value {
		src := a[0].(Iface)
		f, ok := src.v.(*FileObj)
		if !ok {
			x.engineErr("zlib.NewReader over %T", src.v)
		}
		if f.node.dir {
			return Tuple{Iface{}, x.pathErr("read", f.path, "EISDIR")}
		}
		if !f.readChecked {
			// zlib.NewReader reads the stream header: the handle's first read
			f.readChecked = true
			if e, fl := x.fallible("read", f.path); fl {
				return Tuple{Iface{}, e}
			}
		}
		if f.node.z != nil {
			return Tuple{Iface{t: errorType, v: &ZReaderObj{payload: f.node.z.payload}}, nilErr}
		}
		// not a stream produced by the model's zlib.Writer: over-approximate the decoder
		maxN := 8
		if p, ok := x.params["rawZlibMax"]; ok {
			maxN = p
		}
		switch x.c.Choose(3, "zlib-raw") {
		case 0:
			return Tuple{Iface{}, x.newErrS("zlib: invalid header", "")}
		case 1:
			n := x.c.Choose(maxN+1, "zlib-raw-len")
			p := make([]*Term, n)
			for i := range p {
				p[i] = x.c.FreshVar("zraw", 8, nil)
			}
			return Tuple{Iface{t: errorType, v: &ZReaderObj{payload: p}}, nilErr}
		default:
			n := x.c.Choose(maxN+1, "zlib-raw-len")
			p := make([]*Term, n)
			for i := range p {
				p[i] = x.c.FreshVar("zraw", 8, nil)
			}
			return Tuple{Iface{t: errorType, v: &ZReaderObj{payload: p, tailErr: true}}, nilErr}
		}
	}
	intrinsics["zlib.reader.Read"] = func(x *Exec, a []Value) Value {
		r := a[0].(*ZReaderObj)
		dst := a[1].(Slice)
		if r.pos >= len(r.payload) {
			if r.tailErr {
				return Tuple{x.intConst(0), x.newErrS("zlib: invalid checksum", "")}
			}
			return Tuple{x.intConst(0), x.errEOF()}
		}
		limit := len(dst.a)
		if x.params["shortReads"] == 1 && !r.shortUsed && limit > 1 && len(r.payload)-r.pos > 1 {
			// io.Reader contract: a Read may return fewer bytes than asked for (the inflater does at window boundaries)
			if x.c.Choose(2, "short-read") == 1 {
				r.shortUsed = true
				limit = (len(r.payload) - r.pos) / 2
				x.c.notes = append(x.c.notes, "short read: the inflater returned fewer bytes than requested (allowed by the io.Reader contract; real streams do so at 32 KiB window boundaries)")
			}
		}
		n := 0
		for n < limit && r.pos < len(r.payload) {
			dst.a[n] = r.payload[r.pos]
			n++
			r.pos++
		}
		if r.pos >= len(r.payload) && !r.tailErr && x.params["shortReads"] == 1 {
			// io.Reader contract: the final bytes may come together with io.EOF or io.EOF may come from the next call
			// (the inflater does the former unless the stream ends exactly at a 32 KiB window boundary)
			if x.c.Choose(2, "eof-with-data") == 0 {
				return Tuple{x.intConst(int64(n)), x.errEOF()}
			}
			x.c.notes = append(x.c.notes, "eof-split: the last bytes were delivered without io.EOF (allowed by the io.Reader contract; real streams do so when they end exactly at a 32 KiB window boundary)")
		}
		return Tuple{x.intConst(int64(n)), nilErr}
	}
	intrinsics["zlib.reader.Close"] = func(x *Exec, a []Value) Value { return nilErr }

	// ---- encoding/binary ----
	intrinsics["(encoding/binary.bigEndian).PutUint16"] = func(x *Exec, a []Value) Value {
		b := a[1].(Slice)
		v := a[2].(*Term)
		if len(b.a) < 2 {
			x.gopanic("index out of range [1] with length %d", len(b.a))
		}
		b.a[0] = x.c.st.Extract(v, 15, 8)
		b.a[1] = x.c.st.Extract(v, 7, 0)
		return nil
	}
	intrinsics["encoding/binary.Write"] = func(x *Exec, a []Value) Value {
		w := a[0].(Iface)
		data := a[2].(Iface)
		var out []*Term
		v := data.v
		t := data.t
		if p, ok := under(t).(*types.Pointer); ok {
			ptr := v.(*Value)
			if ptr == nil {
				x.gopanic("binary.Write: nil pointer")
			}
			v, t = *ptr, p.Elem()
		}
		x.binEncode(t, v, &out)
		res := x.callMethod(w, "Write", nil, []Value{x.bytesSlice(out)}).(Tuple)
		return res[1]
	}
	intrinsics["encoding/binary.Read"] = func(x *Exec, a []Value) Value {
		r := a[0].(Iface)
		data := a[2].(Iface)
		pt, ok := under(data.t).(*types.Pointer)
		if !ok {
			x.engineErr("binary.Read into %s", data.t)
		}
		ptr := data.v.(*Value)
		size := x.binSize(pt.Elem(), *ptr)
		if size < 0 {
			return x.newErrS("binary.Read: invalid type", "")
		}
		buf := Slice{a: make([]Value, size)}
		// io.ReadFull
		got := 0
		for got < size {
			n, err := x.readFrom(r, Slice{a: buf.a[got:]})
			got += n
			if err.t != nil {
				if e, ok := err.v.(*ErrObj); ok && e.kind == "EOF" {
					if got == 0 {
						return x.errEOF()
					}
					return x.errUEOF()
				}
				return err
			}
			if n == 0 {
				x.engineErr("binary.Read: reader made no progress")
			}
		}
		bs := make([]*Term, size)
		for i := range bs {
			bs[i] = buf.a[i].(*Term)
		}
		pos := 0
		*ptr = x.binDecode(pt.Elem(), *ptr, bs, &pos)
		return nilErr
	}
}

func (x *Exec) binSize(t types.Type, v Value) int {
	switch u := under(t).(type) {
	case *types.Basic:
		if ii, ok := basicInfo(u); ok {
			return int(ii.w / 8)
		}
		if u.Info()&types.IsBoolean != 0 {
			return 1
		}
		return -1
	case *types.Array:
		e := x.binSize(u.Elem(), v.(Array)[0:1:1][0])
		return e * int(u.Len())
	case *types.Struct:
		n := 0
		for i := 0; i < u.NumFields(); i++ {
			s := x.binSize(u.Field(i).Type(), v.(Struct)[i])
			if s < 0 {
				return -1
			}
			n += s
		}
		return n
	case *types.Slice:
		sl := v.(Slice)
		if len(sl.a) == 0 {
			return 0
		}
		e := x.binSize(u.Elem(), sl.a[0])
		if e < 0 {
			return -1
		}
		return e * len(sl.a)
	}
	return -1
}

func (x *Exec) binEncode(t types.Type, v Value, out *[]*Term) {
	st := x.c.st
	switch u := under(t).(type) {
	case *types.Basic:
		tm := v.(*Term)
		if tm.w == 0 {
			*out = append(*out, st.Ite(tm, st.Const(8, 1), st.Const(8, 0)))
			return
		}
		for i := int(tm.w) - 8; i >= 0; i -= 8 {
			*out = append(*out, st.Extract(tm, uint8(i+7), uint8(i)))
		}
	case *types.Array:
		for _, e := range v.(Array) {
			x.binEncode(u.Elem(), e, out)
		}
	case *types.Struct:
		for i, f := range v.(Struct) {
			x.binEncode(u.Field(i).Type(), f, out)
		}
	case *types.Slice:
		for _, e := range v.(Slice).a {
			x.binEncode(u.Elem(), e, out)
		}
	default:
		x.engineErr("binary.Write of %s", t)
	}
}

func (x *Exec) binDecode(t types.Type, old Value, bs []*Term, pos *int) Value {
	st := x.c.st
	switch u := under(t).(type) {
	case *types.Basic:
		if u.Info()&types.IsBoolean != 0 {
			b := bs[*pos]
			*pos++
			return st.Not(st.Eq(b, st.Const(8, 0)))
		}
		ii, _ := basicInfo(u)
		n := int(ii.w / 8)
		var v *Term
		if n == 1 {
			v = bs[*pos]
		} else {
			v = st.Zext(bs[*pos], ii.w)
			for i := 1; i < n; i++ {
				v = st.Bin(OpBOr, st.Bin(OpShl, v, st.Const(ii.w, 8)), st.Zext(bs[*pos+i], ii.w))
			}
		}
		*pos += n
		return v
	case *types.Array:
		a := old.(Array)
		for i := range a {
			a[i] = x.binDecode(u.Elem(), a[i], bs, pos)
		}
		return a
	case *types.Struct:
		s := old.(Struct)
		for i := range s {
			s[i] = x.binDecode(u.Field(i).Type(), s[i], bs, pos)
		}
		return s
	case *types.Slice:
		sl := old.(Slice)
		for i := range sl.a {
			sl.a[i] = x.binDecode(u.Elem(), sl.a[i], bs, pos)
		}
		return sl
	}
	x.engineErr("binary.Read into %s", t)
	return nil
}

// ---- more of bytes / io / fmt, so that realistic refactorings of Goit stay encodable ----

func (x *Exec) bufOf(v Value) *BufObj {
	b, ok := deref(v).(*BufObj)
	if !ok || b == nil {
		x.gopanic("nil *bytes.Buffer")
	}
	return b
}

func (b *BufObj) flat(x *Exec) []*Term {
	if b.z != nil {
		x.engineErr("reading the content of a compressed stream held in a bytes.Buffer is not modelled")
	}
	return b.data
}

func init() {
	intrinsics["bytes.NewBuffer"] = func(x *Exec, a []Value) Value {
		cell := new(Value)
		*cell = &BufObj{data: append([]*Term{}, x.strOf(a[0]).b...)}
		return cell
	}
	intrinsics["bytes.NewBufferString"] = func(x *Exec, a []Value) Value {
		cell := new(Value)
		*cell = &BufObj{data: append([]*Term{}, a[0].(Str).b...)}
		return cell
	}
	bw := func(x *Exec, a []Value) Value {
		b := x.bufOf(a[0])
		s := x.strOf(a[1])
		b.data = append(b.flat(x), s.b...)
		return Tuple{x.intConst(int64(len(s.b))), nilErr}
	}
	intrinsics["(*bytes.Buffer).Write"] = bw
	intrinsics["(*bytes.Buffer).WriteString"] = bw
	intrinsics["*bytes.Buffer.Write"] = bw
	intrinsics["*bytes.Buffer.WriteString"] = bw
	intrinsics["(*bytes.Buffer).WriteByte"] = func(x *Exec, a []Value) Value {
		b := x.bufOf(a[0])
		b.data = append(b.flat(x), a[1].(*Term))
		return nilErr
	}
	intrinsics["(*bytes.Buffer).String"] = func(x *Exec, a []Value) Value {
		if p, ok := a[0].(*Value); ok && p == nil {
			return x.cstr("<nil>")
		}
		return Str{append([]*Term{}, x.bufOf(a[0]).flat(x)...)}
	}
	intrinsics["(*bytes.Buffer).Len"] = func(x *Exec, a []Value) Value { return x.intConst(int64(len(x.bufOf(a[0]).flat(x)))) }
	intrinsics["(*bytes.Buffer).Reset"] = func(x *Exec, a []Value) Value { b := x.bufOf(a[0]); b.data, b.z = nil, nil; return nil }
	intrinsics["(*bytes.Buffer).Grow"] = func(x *Exec, a []Value) Value {
		n := a[1].(*Term)
		if x.c.Branch(x.c.st.Cmp(OpSlt, n, x.intConst(0))) {
			x.gopanic("bytes.Buffer.Grow: negative count")
		}
		if x.c.Branch(x.c.st.Cmp(OpSlt, x.intConst(1<<26), n)) {
			x.gopanic("bytes.Buffer.Grow: allocation of an input-controlled size above 64 MiB (unbounded allocation)")
		}
		return nil
	}
	br := func(x *Exec, a []Value) Value {
		b := x.bufOf(a[0])
		dst := a[1].(Slice)
		d := b.flat(x)
		if len(d) == 0 {
			if len(dst.a) == 0 {
				return Tuple{x.intConst(0), nilErr}
			}
			return Tuple{x.intConst(0), x.errEOF()}
		}
		n := 0
		for n < len(dst.a) && n < len(d) {
			dst.a[n] = d[n]
			n++
		}
		b.data = d[n:]
		return Tuple{x.intConst(int64(n)), nilErr}
	}
	intrinsics["(*bytes.Buffer).Read"] = br
	intrinsics["*bytes.Buffer.Read"] = br
	intrinsics["(*bytes.Buffer).ReadFrom"] = func(x *Exec, a []Value) Value {
		b := x.bufOf(a[0])
		data, err := x.readAll(a[1].(Iface))
		b.data = append(b.flat(x), data...)
		return Tuple{x.intConst(int64(len(data))), err}
	}
	intrinsics["io.ReadFull"] = func(x *Exec, a []Value) Value {
		r := a[0].(Iface)
		buf := a[1].(Slice)
		got := 0
		for got < len(buf.a) {
			n, err := x.readFrom(r, Slice{a: buf.a[got:]})
			got += n
			if err.t != nil {
				if e, ok := err.v.(*ErrObj); ok && e.kind == "EOF" {
					if got == 0 {
						return Tuple{x.intConst(0), x.errEOF()}
					}
					if got < len(buf.a) {
						return Tuple{x.intConst(int64(got)), x.errUEOF()}
					}
					break
				}
				return Tuple{x.intConst(int64(got)), err}
			}
			if n == 0 {
				x.engineErr("io.ReadFull: reader made no progress")
			}
		}
		return Tuple{x.intConst(int64(got)), nilErr}
	}
	intrinsics["io.Copy"] = func(x *Exec, a []Value) Value {
		data, err := x.readAll(a[1].(Iface))
		if len(data) > 0 {
			r := x.callMethod(a[0].(Iface), "Write", nil, []Value{x.bytesSlice(data)}).(Tuple)
			if r[1].(Iface).t != nil {
				return Tuple{x.intConst(0), r[1]}
			}
		}
		return Tuple{x.intConst(int64(len(data))), err}
	}
	intrinsics["crypto/sha1.Sum"] = func(x *Exec, a []Value) Value {
		out := x.shaSum(x.strOf(a[0]).b)
		arr := make(Array, 20)
		for i, t := range out {
			arr[i] = t
		}
		return arr
	}
	fpr := func(ln bool) Intrinsic {
		return func(x *Exec, a []Value) Value {
			var s Str
			if ln {
				s = x.sprint(a[1].(Slice).a, true)
				s.b = append(append([]*Term{}, s.b...), x.c.st.Const(8, '\n'))
			} else {
				s = x.sprintf(a[1].(Str), a[2].(Slice).a)
			}
			return x.callMethod(a[0].(Iface), "Write", nil, []Value{x.bytesSlice(s.b)})
		}
	}
	intrinsics["fmt.Fprintf"] = fpr(false)
	intrinsics["fmt.Fprintln"] = fpr(true)
	intrinsics["fmt.Fprint"] = func(x *Exec, a []Value) Value {
		s := x.sprint(a[1].(Slice).a, false)
		return x.callMethod(a[0].(Iface), "Write", nil, []Value{x.bytesSlice(s.b)})
	}
	intrinsics["fmt.Sprintln"] = func(x *Exec, a []Value) Value {
		s := x.sprint(a[0].(Slice).a, true)
		return Str{append(append([]*Term{}, s.b...), x.c.st.Const(8, '\n'))}
	}
	intrinsics["fmt.Print"] = func(x *Exec, a []Value) Value {
		x.stdout(x.sprint(a[0].(Slice).a, false))
		return Tuple{x.intConst(0), nilErr}
	}
	intrinsics["sort.Strings"] = func(x *Exec, a []Value) Value {
		sl := a[0].(Slice)
		for i := 1; i < len(sl.a); i++ {
			for j := i; j > 0; j-- {
				if !x.c.Branch(x.strLess(sl.a[j].(Str), sl.a[j-1].(Str), false)) {
					break
				}
				sl.a[j], sl.a[j-1] = sl.a[j-1], sl.a[j]
			}
		}
		return nil
	}
	intrinsics["sort.SliceStable"] = func(x *Exec, a []Value) Value { return intrinsics["sort.Slice"](x, a) }
	// os.Stdout / os.Stderr as writers
	intrinsics["*os.File.WriteString"] = intrinsics["(*os.File).WriteString"]
}
