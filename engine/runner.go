package main

import (
	"fmt"
	"go/types"
	"os"
	"os/exec"
	"runtime/debug"
	"sort"
	"strings"
	"sync"
	"time"

	"golang.org/x/tools/go/ssa"
)

type HarnessSpec struct {
	Pkg    string // package path relative to module, e.g. "internal/store"
	Func   string
	Params map[string]int
}

func (h HarnessSpec) Name() string { return h.Pkg + "." + h.Func }

type HarnessResult struct {
	Spec       HarnessSpec
	Stats      Stats
	Violations []*Violation
	Wall       float64
	SolverTime float64
	Queries    int
	SolverErrs int
	Complete   bool
	PathModels []pathModel // sampled completed paths with a concrete model (for native differential validation)
}

type pathModel struct {
	Inputs  map[string]interface{}
	Choices []int
	Asserts []string
	Results []bool
	Notes   []string
}

type worker struct {
	ld   *Loaded
	spec HarnessSpec
	cfg  *RunCfg
	ctx  *Ctx
	fn   *ssa.Function
	res  *HarnessResult
}

func newWorker(ld *Loaded, spec HarnessSpec, cfg *RunCfg) *worker {
	st := NewStore()
	w := &worker{ld: ld, spec: spec, cfg: cfg}
	w.ctx = &Ctx{st: st, sol: NewSolver(solverKind()), cfg: cfg, stats: &Stats{Funcs: map[string]int64{}, AssertsByMsg: map[string]int{}}, harness: spec.Name()}
	w.fn = ld.fn(repoMod+"/"+spec.Pkg, spec.Func)
	w.ctx.strCache = map[string]Str{}
	w.ctx.zeroCache = map[types.Type]Value{}
	for _, cs := range cfg.Cross {
		every := 1
		name := cs
		if i := strings.IndexByte(cs, ':'); i >= 0 {
			name = cs[:i]
			fmt.Sscanf(cs[i+1:], "%d", &every)
		}
		w.ctx.cross = append(w.ctx.cross, NewSolver(name))
		w.ctx.crossEvery = append(w.ctx.crossEvery, every)
	}
	return w
}

// runPath executes the harness once along the current trail. Returns outcome string.
func (w *worker) runPath(maxDepth int) (outcome string) {
	c := w.ctx
	c.resetPath()
	c.hchoices = nil
	x := &Exec{c: c, prog: w.ld.prog, ld: w.ld, globals: map[*ssa.Global]*Value{}, fcount: map[*ssa.Function]int64{},
		flagsOf: map[*Value]*FlagSetObj{}, params: w.spec.Params, extUsed: map[string]bool{}, stdInit: map[*ssa.Package]bool{}}
	if c.st.nextID > 1_500_000 {
		// keep memory bounded: fresh term store and solver (definitions are re-sent lazily)
		c.st = NewStore()
		c.sol.Restart()
		c.strCache = map[string]Str{}
		c.zeroCache = map[types.Type]Value{}
	}
	x.fs = x.newFS()
	defer func() {
		c.stats.Steps += x.steps
		for f, n := range x.fcount {
			if f.Pkg != nil && strings.HasPrefix(f.Pkg.Pkg.Path(), repoMod) && !strings.Contains(f.Pkg.Pkg.Path(), "zzvp") {
				c.stats.Funcs[f.String()] += n
			}
		}
		if r := recover(); r != nil {
			switch r := r.(type) {
			case pathAbort:
				outcome = r.reason
				if strings.HasPrefix(r.reason, "engine:") {
					c.stats.EngineErrors++
					if len(c.stats.ErrSamples) < 5 {
						c.stats.ErrSamples = append(c.stats.ErrSamples, r.reason)
					}
				} else if strings.HasPrefix(r.reason, "unwind:") {
					if len(c.stats.ErrSamples) < 5 {
						c.stats.ErrSamples = append(c.stats.ErrSamples, r.reason)
					}
					// candidate non-termination: kept with the path's inputs so that the check can run the real binary on them
					if len(c.viol) == 0 {
						n := len(c.viol)
						w.recordPanic(r.reason)
						if len(c.viol) > n {
							c.viol[n].Msg = "hang: " + r.reason
							c.viol[n].Hang = true
						}
					}
				}
			case goPanic:
				// a Go run-time panic escaping the harness: violation of "never panics" for the code under test
				c.stats.Panics++
				outcome = "panic: " + r.msg
				w.recordPanic(r.msg)
			case procExit:
				outcome = "exit"
			case procCrash:
				outcome = "crash-outside-run"
			case depthLimit:
				outcome = "depth"
			default:
				c.stats.EngineErrors++
				outcome = fmt.Sprintf("engine: go panic %v\n%s", r, debug.Stack())
				if len(c.stats.ErrSamples) < 5 {
					c.stats.ErrSamples = append(c.stats.ErrSamples, outcome)
				}
			}
		}
	}()
	c.maxDepth = maxDepth
	// package initialisers of the harness's package and (transitively) of every Goit package it imports
	x.callFunction(w.fn.Pkg.Func("init"), nil, nil)
	x.callFunction(w.fn, nil, nil)
	return "ok"
}

func solverKind() string {
	if k := os.Getenv("GOITSYM_SOLVER"); k != "" {
		return k
	}
	// z3 5.1.0 (z3-new) answers these incremental QF_BV queries about five times faster than 4.8.12; use it when it is
	// installed, otherwise the system z3. The thorough tier cross-checks with cvc5 and with the other z3.
	if _, err := exec.LookPath("z3-new"); err == nil {
		return "z3-new"
	}
	return "z3"
}

type depthLimit struct{}

var dbgSlow = os.Getenv("GOITSYM_SLOW") != ""
var dbgTrails *os.File
var dbgMu sync.Mutex

func init() {
	if p := os.Getenv("GOITSYM_TRAILS"); p != "" {
		dbgTrails, _ = os.Create(p)
	}
}

func (w *worker) recordPanic(msg string) {
	c := w.ctx
	m := c.model
	if m == nil {
		res, mm := c.check(c.st.True, c.cfg.AssertTimeoutMs)
		if res != Sat {
			c.stats.Undischarged++
			return
		}
		m = mm
	}
	v := &Violation{Harness: c.harness, Msg: "panic: " + msg, Model: copyModel(m), Notes: append([]string{}, c.notes...)}
	for _, d := range c.trail[:min(c.pos, len(c.trail))] {
		v.Trail = append(v.Trail, d.Cur)
	}
	v.Inputs = c.concretize(m)
	v.Inputs["@choices"] = append([]int{}, c.hchoices...)
	c.viol = append(c.viol, v)
}

// explore runs the DFS below the (frozen) prefix currently in ctx.trail.
func (w *worker) explore(res *HarnessResult, deadline time.Time, sampleEvery int) bool {
	c := w.ctx
	for {
		tp := time.Now()
		out := w.runPath(0)
		c.stats.Paths++
		if dbgSlow && time.Since(tp) > 4*time.Second && c.model != nil {
			fmt.Fprintf(os.Stderr, "SLOW PATH %.1fs steps? pc=%d outcome=%s inputs=%s choices=%v\n", time.Since(tp).Seconds(), len(c.pc), out, showInputs(c.concretize(c.model)), c.hchoices)
		}
		if dbgTrails != nil {
			sig := ""
			for _, d := range c.trail {
				sig += fmt.Sprintf("%d/%d,", d.Cur, len(d.Order))
			}
			dbgMu.Lock()
			fmt.Fprintln(dbgTrails, sig, out)
			dbgMu.Unlock()
		}
		switch {
		case out == "ok":
			if c.reachedEnd {
				c.stats.ReachedEnd++
			}
			if len(res.PathModels) < 64 && (c.stats.Paths%sampleEvery == 0 || len(res.PathModels) < 4) && c.model != nil {
				in := c.concretize(c.model)
				in["@choices"] = append([]int{}, c.hchoices...)
				res.PathModels = append(res.PathModels, pathModel{Inputs: in, Choices: append([]int{}, c.hchoices...),
					Asserts: append([]string{}, c.assertLog...), Results: append([]bool{}, c.assertRes...), Notes: append([]string{}, c.notes...)})
			}
		case out == "assume-false" || out == "infeasible":
			c.stats.Pruned++
		case out == "violation":
		}
		if c.unproved {
			c.stats.Unproved++
		}
		if len(c.stats.PathSamples) < 6 {
			ps := PathSample{Outcome: out, Asserts: append([]string{}, c.assertLog...), Steps: 0, PCSize: len(c.pc), Notes: append([]string{}, c.notes...)}
			if c.model != nil {
				ps.Inputs = c.concretize(c.model)
			}
			c.stats.PathSamples = append(c.stats.PathSamples, ps)
		}
		if len(c.viol) > 0 && c.cfg.StopAtFirst {
			return false
		}
		if !c.advance() {
			return true
		}
		if time.Now().After(deadline) || (c.cfg.MaxPaths > 0 && c.stats.Paths >= c.cfg.MaxPaths) {
			return false
		}
	}
}

// RunHarness explores one harness, splitting the decision tree over nworkers solver processes.
func RunHarness(ld *Loaded, spec HarnessSpec, cfg *RunCfg, nworkers int, budget time.Duration) *HarnessResult {
	t0 := time.Now()
	res := &HarnessResult{Spec: spec, Complete: true}
	deadline := t0.Add(budget)
	fn := ld.fn(repoMod+"/"+spec.Pkg, spec.Func)
	if fn == nil {
		res.Stats.EngineErrors++
		res.Stats.ErrSamples = []string{"harness function not found: " + spec.Name()}
		res.Complete = false
		return res
	}
	// phase 1: enumerate decision prefixes of bounded depth to obtain independent jobs
	var jobs [][]*Decision
	if nworkers > 1 {
		jobs = splitJobs(ld, spec, cfg, nworkers*6, res)
	}
	if len(jobs) <= 1 {
		w := newWorker(ld, spec, cfg)
		defer w.ctx.sol.Close()
		done := w.explore(res, deadline, 7)
		mergeStats(res, w)
		res.Complete = res.Complete && done && len(w.ctx.viol) == 0
		res.Wall = time.Since(t0).Seconds()
		return res
	}
	var mu sync.Mutex
	var wg sync.WaitGroup
	jobCh := make(chan []*Decision, len(jobs))
	for _, j := range jobs {
		jobCh <- j
	}
	close(jobCh)
	stop := false
	for i := 0; i < nworkers; i++ {
		wg.Add(1)
		go func() {
			defer wg.Done()
			w := newWorker(ld, spec, cfg)
			defer w.ctx.sol.Close()
			local := &HarnessResult{Spec: spec}
			alldone := true
			for j := range jobCh {
				mu.Lock()
				s := stop
				mu.Unlock()
				if s {
					alldone = false
					break
				}
				w.ctx.trail = cloneFrozen(j)
				done := w.explore(local, deadline, 7)
				if !done {
					alldone = false
					if len(w.ctx.viol) > 0 && cfg.StopAtFirst {
						mu.Lock()
						stop = true
						mu.Unlock()
						break
					}
					if time.Now().After(deadline) {
						break
					}
				}
			}
			mu.Lock()
			res.PathModels = append(res.PathModels, local.PathModels...)
			mergeStats(res, w)
			if !alldone {
				res.Complete = false
			}
			mu.Unlock()
		}()
	}
	wg.Wait()
	if len(res.Violations) > 0 {
		res.Complete = false
	}
	res.Wall = time.Since(t0).Seconds()
	return res
}

func cloneFrozen(j []*Decision) []*Decision {
	out := make([]*Decision, len(j))
	for i, d := range j {
		nd := *d
		nd.Frozen = true
		nd.Order = []int{d.Cur}
		nd.Pos = 0
		out[i] = &nd
	}
	return out
}

// splitJobs explores the top of the decision tree breadth-wise until there are enough open prefixes.
func splitJobs(ld *Loaded, spec HarnessSpec, cfg *RunCfg, want int, res *HarnessResult) [][]*Decision {
	w := newWorker(ld, spec, cfg)
	defer w.ctx.sol.Close()
	c := w.ctx
	depth := 2
	var jobs, prevJobs [][]*Decision
	t0 := time.Now()
	const splitCap = 12 * time.Second
	for iter := 0; iter < 12; iter++ {
		prevJobs = jobs
		jobs = nil
		c.trail = nil
		c.viol = nil
		*c.stats = Stats{Funcs: map[string]int64{}, AssertsByMsg: map[string]int{}}
		complete := true
		for {
			out := w.runPath(depth)
			if out == "depth" {
				complete = false
			}
			// every prefix of the cut is a job (a path that finished above the cut is kept as its own cheap job so that a
			// worker counts it once); the enumeration of one depth is never abandoned half-way: that would lose sub-trees
			jobs = append(jobs, cloneFrozen(c.trail))
			if !c.advance() {
				break
			}
			if prevJobs != nil && time.Since(t0) > splitCap {
				// the split itself is getting expensive (few, solver-heavy paths): fall back to the last COMPLETE cut
				return prevJobs
			}
		}
		if complete || len(jobs) >= want || time.Since(t0) > splitCap {
			break
		}
		depth += 2
	}
	return jobs
}

func mergeStats(res *HarnessResult, w *worker) {
	s, t := &res.Stats, w.ctx.stats
	s.Paths += t.Paths
	s.Pruned += t.Pruned
	s.Steps += t.Steps
	s.Obligations += t.Obligations
	s.Discharged += t.Discharged
	s.Undischarged += t.Undischarged
	s.Unproved += t.Unproved
	s.UnwindFail += t.UnwindFail
	s.EngineErrors += t.EngineErrors
	s.Panics += t.Panics
	s.ReachedEnd += t.ReachedEnd
	s.BranchQueries += t.BranchQueries
	s.CrossChecked += t.CrossChecked
	s.CrossPruned += t.CrossPruned
	s.CrossDisagree += t.CrossDisagree
	s.CrossUnknown += t.CrossUnknown
	for _, cs := range w.ctx.cross {
		cs.Close()
	}
	w.ctx.cross = nil
	for _, e := range t.ErrSamples {
		if len(s.ErrSamples) < 5 {
			s.ErrSamples = append(s.ErrSamples, e)
		}
	}
	for _, e := range t.PanicSamples {
		if len(s.PanicSamples) < 8 {
			s.PanicSamples = append(s.PanicSamples, e)
		}
	}
	for _, p := range t.PathSamples {
		if len(s.PathSamples) < 6 {
			s.PathSamples = append(s.PathSamples, p)
		}
	}
	if s.Funcs == nil {
		s.Funcs = map[string]int64{}
	}
	for k, v := range t.Funcs {
		s.Funcs[k] += v
	}
	if s.AssertsByMsg == nil {
		s.AssertsByMsg = map[string]int{}
	}
	for k, v := range t.AssertsByMsg {
		s.AssertsByMsg[k] += v
	}
	res.Violations = append(res.Violations, w.ctx.viol...)
	res.SolverTime += w.ctx.sol.Time.Seconds()
	res.Queries += w.ctx.sol.Queries
	res.SolverErrs += w.ctx.sol.Errors
}

func topFuncs(m map[string]int64, n int) []string {
	type kv struct {
		k string
		v int64
	}
	var l []kv
	for k, v := range m {
		l = append(l, kv{k, v})
	}
	sort.Slice(l, func(i, j int) bool { return l[i].k < l[j].k })
	var out []string
	for _, e := range l {
		out = append(out, fmt.Sprintf("%s:%d", strings.TrimPrefix(e.k, repoMod+"/"), e.v))
	}
	if n > 0 && len(out) > n {
		out = out[:n]
	}
	return out
}
