package main

import (
	"math/rand"
	"reflect"
	"regexp"
	"regexp/syntax"
	"testing"
)

// The submatch model (leftmost-first backtracking over regexp/syntax programs) against the real library on concrete subjects.
func TestReFindAgainstLibrary(t *testing.T) {
	pats := []string{`^HEAD@\{(\d)+\}$`, `^HEAD@\{(\d+)\}$`, `(a|ab)(c|bcd)(d*)`, `a*?(b+)`, `^(?:(x)|(y))*$`, `[0-9a-f]{4}`, `(\w+)@(\w+)\.com`,
		`^$`, `(a*)*`, `(a*)+`, `(a|b)*?c`, `\bfoo\b`, `(?m)^(l.*)$`, `ref: refs/heads/(.+)`, `^([+-])(\d\d)(\d\d)$`, `x*`, `(|a)+`}
	alpha := "ab cdxyl0159@{}HEAD.comref:/-+\nfo"
	rng := rand.New(rand.NewSource(1))
	st := NewStore()
	ctx := &Ctx{st: st, stats: &Stats{Funcs: map[string]int64{}}, facts: map[*Term]bool{}}
	x := &Exec{c: ctx}
	for _, p := range pats {
		re := regexp.MustCompile(p)
		sre, _ := syntax.Parse(p, syntax.Perl)
		prog, _ := syntax.Compile(sre.Simplify())
		ro := &RegexpObj{prog: prog, src: p, clos: map[uint32][]closEnt{}} // native == nil: forces the model
		subjects := []string{"", "HEAD@{10}", "HEAD@{7}", "abcd", "aaab", "xyxy", "me@site.com", "a foo b", "l1\nl2", "ref: refs/heads/a: b", "+0530", "-1200"}
		for i := 0; i < 300; i++ {
			n := rng.Intn(9)
			b := make([]byte, n)
			for j := range b {
				b[j] = alpha[rng.Intn(len(alpha))]
			}
			subjects = append(subjects, string(b))
		}
		for _, s := range subjects {
			ts := make([]*Term, len(s))
			for i := 0; i < len(s); i++ {
				ts[i] = st.Const(8, uint64(s[i]))
			}
			got := x.reFind(ro, ts)
			want := re.FindStringSubmatchIndex(s)
			if !reflect.DeepEqual(got, want) {
				t.Errorf("pattern %q subject %q: model %v, library %v", p, s, got, want)
			}
		}
	}
}
