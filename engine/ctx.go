package main

// Path context: decision trail, path condition, model cache, assume/assert.

import (
	"fmt"
	"go/types"
	"os"
	"sort"
	"strings"

	"golang.org/x/tools/go/ssa"
)

var dbgWhere = os.Getenv("GOITSYM_WHERE") != ""

type Decision struct {
	N      int   // number of alternatives (2 for branches)
	Cur    int   // alternative currently taken
	Order  []int // order in which alternatives are tried
	Pos    int   // index into Order of Cur
	Models []Model
	Frozen bool
	IsBr   bool
}

type pathAbort struct{ reason string } // engine-level unwinding of the current path

type Violation struct {
	Harness string
	Msg     string
	Model   Model
	Trail   []int
	Notes   []string
	Inputs  map[string]interface{}
	Hang    bool // an unwinding bound was exceeded: a candidate non-termination, reported only if the real binary hangs too
}

type Stats struct {
	Paths         int
	Pruned        int
	Steps         int64
	Obligations   int
	Discharged    int
	Undischarged  int
	Unproved      int // paths that passed an 'unknown' feasibility answer
	UnwindFail    int
	EngineErrors  int
	Panics        int
	ErrSamples    []string
	PanicSamples  []string
	PathSamples   []PathSample
	Funcs         map[string]int64
	AssertsByMsg  map[string]int
	ReachedEnd    int
	BranchQueries int
	CrossChecked  int
	CrossPruned   int
	CrossDisagree int
	CrossUnknown  int
}

type PathSample struct {
	Inputs   map[string]interface{} `json:"inputs"`
	Outcome  string                 `json:"outcome"`
	Asserts  []string               `json:"asserts"`
	Notes    []string               `json:"notes,omitempty"`
	Steps    int64                  `json:"steps"`
	PCSize   int                    `json:"pc_conjuncts"`
	assertRs []bool
}

type Ctx struct {
	st     *Store
	sol    *Solver
	trail  []*Decision
	pos    int
	pc     []*Term
	model  Model // satisfies pc, or nil when unknown
	memo   map[*Term]uint64
	nvar   int
	stats  *Stats
	viol   []*Violation
	cfg    *RunCfg
	inputs []inputRec // symbolic inputs created on this path (for model -> concrete input mapping)
	// per-path
	unproved   bool
	assertLog  []string
	assertRes  []bool
	notes      []string
	concrete   Model // when non-nil: concolic replay — all branches decided by this assignment, no solver
	shaApps    []shaApp
	harness    string
	reachedEnd bool
	hchoices   []int
	strCache   map[string]Str
	zeroCache  map[types.Type]Value
	cross      []*Solver
	crossEvery []int
	crossN     int
	crossBr    int
	where      *ssa.Function
	dbgStack   []string
	facts      map[*Term]bool
	maxDepth   int
}

type inputRec struct {
	name  string
	kind  string // "bytes", "int", "bool"
	terms []*Term
	lo    int64
}

type shaApp struct {
	in       []*Term
	out      []*Term
	concrete bool
}

type RunCfg struct {
	BranchTimeoutMs int
	AssertTimeoutMs int
	MaxSteps        int64
	MaxBackEdges    int
	StopAtFirst     bool
	Known           map[string]bool
	Tier            string
	MaxPaths        int
	Cross           []string // cross-check solvers, "name" or "name:every"
	Params          map[string]int
}

func (c *Ctx) resetPath() {
	c.pos = 0
	c.pc = c.pc[:0]
	c.model = Model{}
	c.memo = map[*Term]uint64{}
	c.nvar = 0
	c.inputs = c.inputs[:0]
	c.unproved = false
	c.assertLog = nil
	c.assertRes = nil
	c.notes = nil
	c.shaApps = c.shaApps[:0]
	c.reachedEnd = false
	c.facts = map[*Term]bool{}
}

func (c *Ctx) eval(t *Term) (uint64, bool) {
	if c.concrete != nil {
		return t.Eval(c.concrete, c.memo), true
	}
	if c.model == nil {
		return 0, false
	}
	return t.Eval(c.model, c.memo), true
}

func (c *Ctx) setModel(m Model) {
	// merge: keep values of variables the solver did not mention
	if m == nil {
		c.model = nil
	} else {
		if c.model != nil {
			for k, v := range c.model {
				if _, ok := m[k]; !ok {
					m[k] = v
				}
			}
		}
		c.model = m
	}
	c.memo = map[*Term]uint64{}
}

func (c *Ctx) check(extra *Term, timeout int) (Res, Model) {
	conj := append(append([]*Term{}, c.pc...), extra)
	return c.sol.Check(conj, timeout)
}

// FreshVar creates a new symbolic variable; the current model is extended so it still satisfies pc.
func (c *Ctx) FreshVar(prefix string, w uint8, dom *[4]uint64) *Term {
	name := fmt.Sprintf("%s_%d", prefix, c.nvar)
	c.nvar++
	t := c.st.Var(name, w)
	if dom != nil && t.dom == nil {
		d := *dom
		t.dom = &d
	}
	if c.model != nil {
		// the variable is new on this path, so no earlier conjunct constrains it: give it a value inside its domain
		// (the model may carry a stale value under the same name from another path or from solver model completion)
		var v uint64
		if dom != nil {
			for x := uint64(0); x < 256; x++ {
				if inDom(dom, x) {
					v = x
					break
				}
			}
		}
		c.model[name] = v
		delete(c.memo, t)
	}
	if dom != nil {
		// assert domain in SMT as well (prefilter is only constant propagation)
		c.pc = append(c.pc, domTerm(c.st, t, dom))
	}
	return t
}

func domTerm(st *Store, t *Term, dom *[4]uint64) *Term {
	// disjunction of ranges
	r := st.False
	v := 0
	for v < 256 {
		if !inDom(dom, uint64(v)) {
			v++
			continue
		}
		lo := v
		for v < 256 && inDom(dom, uint64(v)) {
			v++
		}
		hi := v - 1
		var rng *Term
		if lo == hi {
			rng = st.mk(OpEq, 0, t, st.Const(8, uint64(lo)), nil, 0, "")
		} else {
			rng = st.And(st.mk(OpUle, 0, st.Const(8, uint64(lo)), t, nil, 0, ""), st.mk(OpUle, 0, t, st.Const(8, uint64(hi)), nil, 0, ""))
		}
		r = st.Or(r, rng)
	}
	return r
}

// Branch decides a symbolic condition, forking the exploration when both sides are feasible.
func (c *Ctx) Branch(cond *Term) bool {
	if cond.op == OpConst {
		return cond.k == 1
	}
	if v, ok := c.facts[cond]; ok {
		return v
	}
	r := c.branch(cond)
	c.facts[cond] = r
	c.facts[c.st.Not(cond)] = !r
	return r
}

func (c *Ctx) branch(cond *Term) bool {
	if c.concrete != nil {
		v, _ := c.eval(cond)
		if c.pos < len(c.trail) {
			if c.trail[c.pos].Cur != int(v) {
				c.notes = append(c.notes, fmt.Sprintf("concolic: decision %d disagrees with model", c.pos))
			}
			c.pos++
		}
		if v == 1 {
			c.pc = append(c.pc, cond)
		} else {
			c.pc = append(c.pc, c.st.Not(cond))
		}
		return v == 1
	}
	if c.pos < len(c.trail) {
		d := c.trail[c.pos]
		if !d.IsBr {
			panic(pathAbort{"engine: trail mismatch (expected choose, got branch)"})
		}
		c.pos++
		side := d.Cur == 1
		if side {
			c.pc = append(c.pc, cond)
		} else {
			c.pc = append(c.pc, c.st.Not(cond))
		}
		if c.pos == len(c.trail) {
			c.installModel(d.Models[d.Cur])
		}
		return side
	}
	// new decision
	if c.maxDepth > 0 && len(c.trail) >= c.maxDepth {
		panic(depthLimit{})
	}
	if dbgWhere {
		k := len(c.dbgStack) - 4
		if k < 0 {
			k = 0
		}
		c.stats.Funcs["@decision in "+strings.Join(c.dbgStack[k:], " > ")]++
	}
	c.stats.BranchQueries++
	d := &Decision{N: 2, IsBr: true, Models: make([]Model, 2)}
	var first int
	if v, ok := c.eval(cond); ok {
		first = int(v)
		d.Models[first] = copyModel(c.model)
		other := c.st.Not(cond)
		if first == 0 {
			other = cond
		}
		res, m := c.check(other, c.cfg.BranchTimeoutMs)
		switch res {
		case Sat:
			d.Order = []int{first, 1 - first}
			d.Models[1-first] = m
		case Unsat:
			d.Order = []int{first}
			if !c.crossPruned(other) {
				d.Order = []int{first, 1 - first}
				d.Models[1-first] = nil
			}
		default:
			d.Order = []int{first, 1 - first}
			d.Models[1-first] = nil
			c.stats.Unproved++
		}
	} else {
		r1, m1 := c.check(cond, c.cfg.BranchTimeoutMs)
		r0, m0 := c.check(c.st.Not(cond), c.cfg.BranchTimeoutMs)
		if r1 == Unsat && !c.crossPruned(cond) {
			r1, m1 = Unknown, nil
		}
		if r0 == Unsat && !c.crossPruned(c.st.Not(cond)) {
			r0, m0 = Unknown, nil
		}
		if r1 != Unsat {
			d.Order = append(d.Order, 1)
			d.Models[1] = m1
		}
		if r0 != Unsat {
			d.Order = append(d.Order, 0)
			d.Models[0] = m0
		}
		if len(d.Order) == 0 {
			panic(pathAbort{"infeasible"})
		}
		if r1 == Unknown || r0 == Unknown {
			c.stats.Unproved++
		}
		first = d.Order[0]
		if d.Models[first] != nil {
			c.setModel(copyModel(d.Models[first]))
		}
	}
	d.Cur = first
	c.trail = append(c.trail, d)
	c.pos++
	if first == 1 {
		c.pc = append(c.pc, cond)
	} else {
		c.pc = append(c.pc, c.st.Not(cond))
	}
	return first == 1
}

// crossPruned: cross-solver tier for branch sides the primary solver found infeasible (a wrong `unsat` there would silently
// drop a sub-tree). Every k-th such verdict is decided again by each independent back end; false = a back end disagrees, and
// the side is then explored as unproved instead of being pruned.
func (c *Ctx) crossPruned(side *Term) bool {
	if len(c.cross) == 0 {
		return true
	}
	c.crossBr++
	ok := true
	for i, cs := range c.cross {
		if c.crossBr%(4*c.crossEvery[i]) != 0 {
			continue
		}
		conj := append(append([]*Term{}, c.pc...), side)
		r2, _ := cs.Check(conj, c.cfg.BranchTimeoutMs)
		c.stats.CrossPruned++
		if r2 == Unknown {
			c.stats.CrossUnknown++
		} else if r2 != Unsat {
			c.stats.CrossDisagree++
			c.stats.Unproved++
			ok = false
		}
	}
	return ok
}

func (c *Ctx) installModel(m Model) {
	c.model = copyModel(m)
	c.memo = map[*Term]uint64{}
	if m == nil {
		c.unproved = true
	}
}

func (c *Ctx) following() bool { return c.concrete == nil && c.pos < len(c.trail) }

func copyModel(m Model) Model {
	if m == nil {
		return nil
	}
	r := make(Model, len(m))
	for k, v := range m {
		r[k] = v
	}
	return r
}

// Choose is an n-ary nondeterministic choice that needs no solver call.
func (c *Ctx) Choose(n int, what string) int {
	if n <= 1 {
		return 0
	}
	if c.pos < len(c.trail) {
		d := c.trail[c.pos]
		if d.IsBr || d.N != n {
			panic(pathAbort{"engine: trail mismatch (choose)"})
		}
		c.pos++
		if c.pos == len(c.trail) && c.concrete == nil {
			c.installModel(d.Models[0])
		}
		return d.Cur
	}
	if c.maxDepth > 0 && len(c.trail) >= c.maxDepth {
		panic(depthLimit{})
	}
	d := &Decision{N: n, Models: []Model{copyModel(c.model)}}
	for i := 0; i < n; i++ {
		d.Order = append(d.Order, i)
	}
	d.Cur = 0
	c.trail = append(c.trail, d)
	c.pos++
	return 0
}

// Assume prunes the path when cond cannot hold.
func (c *Ctx) Assume(cond *Term) {
	if cond.IsTrue() {
		return
	}
	if cond.IsFalse() {
		panic(pathAbort{"assume-false"})
	}
	if c.following() {
		c.pc = append(c.pc, cond)
		return
	}
	if v, ok := c.eval(cond); ok {
		if v == 1 {
			c.pc = append(c.pc, cond)
			return
		}
		if c.concrete != nil {
			panic(pathAbort{"assume-false"})
		}
	}
	res, m := c.check(cond, c.cfg.BranchTimeoutMs)
	switch res {
	case Unsat:
		panic(pathAbort{"assume-false"})
	case Sat:
		c.pc = append(c.pc, cond)
		c.setModel(m)
	default:
		c.pc = append(c.pc, cond)
		c.model = nil
		c.unproved = true
	}
}

// Assert is a proof obligation: pc ∧ ¬cond must be unsatisfiable.
func (c *Ctx) Assert(cond *Term, msg string) {
	if c.following() {
		// already decided when this prefix was first executed
		c.assertLog = append(c.assertLog, msg)
		c.assertRes = append(c.assertRes, true)
		if !cond.IsTrue() {
			c.pc = append(c.pc, cond)
		}
		return
	}
	c.stats.Obligations++
	if c.stats.AssertsByMsg != nil {
		c.stats.AssertsByMsg[msg]++
	}
	if c.concrete != nil {
		v, _ := c.eval(cond)
		c.assertLog = append(c.assertLog, msg)
		c.assertRes = append(c.assertRes, v == 1)
		if v == 1 {
			c.pc = append(c.pc, cond)
		}
		return
	}
	c.assertLog = append(c.assertLog, msg)
	if cond.IsTrue() {
		c.stats.Discharged++
		c.assertRes = append(c.assertRes, true)
		return
	}
	fail := func(m Model) {
		c.assertRes = append(c.assertRes, false)
		v := &Violation{Harness: c.harness, Msg: msg, Model: m, Notes: append([]string{}, c.notes...)}
		for _, d := range c.trail[:c.pos] {
			v.Trail = append(v.Trail, d.Cur)
		}
		v.Inputs = c.concretize(m)
		v.Inputs["@choices"] = append([]int{}, c.hchoices...)
		c.viol = append(c.viol, v)
		panic(pathAbort{"violation"})
	}
	if cond.IsFalse() {
		if c.model == nil {
			res, m := c.check(c.st.True, c.cfg.AssertTimeoutMs)
			if res == Sat {
				c.setModel(m)
			} else {
				c.stats.Undischarged++
				panic(pathAbort{"undischarged"})
			}
		}
		fail(copyModel(c.model))
	}
	if v, ok := c.eval(cond); ok && v == 0 {
		fail(copyModel(c.model))
	}
	res, m := c.check(c.st.Not(cond), c.cfg.AssertTimeoutMs)
	if res != Unknown && len(c.cross) > 0 {
		// cross-solver tier: the same verification condition is decided again by independent back ends
		c.crossN++
		for i, cs := range c.cross {
			if c.crossN%c.crossEvery[i] != 0 {
				continue
			}
			conj := append(append([]*Term{}, c.pc...), c.st.Not(cond))
			r2, _ := cs.Check(conj, c.cfg.AssertTimeoutMs)
			c.stats.CrossChecked++
			if r2 == Unknown {
				c.stats.CrossUnknown++
			} else if r2 != res {
				c.stats.CrossDisagree++
				res = Unknown // a disagreement is never turned into a verdict
			}
		}
	}
	switch res {
	case Unsat:
		c.stats.Discharged++
		c.assertRes = append(c.assertRes, true)
		c.pc = append(c.pc, cond)
	case Sat:
		// merge with current model for variables outside the cone
		if c.model != nil {
			for k, v := range c.model {
				if _, ok := m[k]; !ok {
					m[k] = v
				}
			}
		}
		fail(m)
	default:
		c.stats.Undischarged++
		c.assertRes = append(c.assertRes, true)
		c.pc = append(c.pc, cond)
	}
}

// concretize maps a model to the harness-level inputs.
func (c *Ctx) concretize(m Model) map[string]interface{} {
	out := map[string]interface{}{}
	if m == nil {
		m = Model{}
	}
	memo := map[*Term]uint64{}
	for _, in := range c.inputs {
		switch in.kind {
		case "bytes":
			b := make([]int, len(in.terms))
			for i, t := range in.terms {
				b[i] = int(t.Eval(m, memo))
			}
			out[in.name] = b
		case "int":
			out[in.name] = sval(in.terms[0].w, in.terms[0].Eval(m, memo))
		case "bool":
			out[in.name] = in.terms[0].Eval(m, memo) == 1
		}
	}
	return out
}

// advance moves the trail to the next unexplored alternative; false when the search is complete.
func (c *Ctx) advance() bool {
	for len(c.trail) > 0 {
		d := c.trail[len(c.trail)-1]
		if !d.Frozen && d.Pos+1 < len(d.Order) {
			d.Pos++
			d.Cur = d.Order[d.Pos]
			return true
		}
		if d.Frozen {
			return false
		}
		c.trail = c.trail[:len(c.trail)-1]
	}
	return false
}

func sortedKeys(m map[string]int64) []string {
	ks := make([]string, 0, len(m))
	for k := range m {
		ks = append(ks, k)
	}
	sort.Strings(ks)
	return ks
}
