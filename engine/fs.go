package main

// In-memory file-system model + os / path/filepath intrinsics + crash / fault variables.

import (
	"fmt"
	"os"
	"sort"
)

var traceFS = os.Getenv("GOITSYM_TRACE") != ""

type FNode struct {
	dir  bool
	ents []*FEnt
	data []*Term
	z    *zTag // file holds the zlib stream of z.payload (data unused)
	raw  bool  // file content was supplied as "damaged/raw" bytes: zlib.NewReader over-approximates
}

type FEnt struct {
	name Str
	node *FNode
}

type FS struct {
	root     *FNode
	cwd      Str
	home     Str
	mutCount int
	opCount  int
	crashAt  *Term // symbolic index of the mutation after which the process dies (nil: no crash)
	faultAt  *Term // symbolic index of the fallible call that fails (nil: no fault)
	faulted  bool
	crashed  bool
	mutLog   []string
	opLog    []string
}

type procCrash struct{}

type FileObj struct {
	node   *FNode
	path   Str
	write  bool
	append bool
	pos    int
	closed bool
	// the first Read on a handle is one fallible operation of the fault model (C16: "the k-th ... read ... call")
	readChecked bool
}

type DirEntryObj struct {
	name  Str
	isDir bool
}
type FileInfoObj struct {
	name  Str
	isDir bool
	size  int
}

func (x *Exec) newFS() *FS {
	fs := &FS{root: &FNode{dir: true}, cwd: x.cstr("/w"), home: x.cstr("/h")}
	w := &FNode{dir: true}
	h := &FNode{dir: true}
	fs.root.ents = []*FEnt{{x.cstr("w"), w}, {x.cstr("h"), h}}
	return fs
}

// splitPath splits on '/' (forking when a byte may or may not be '/').
func (x *Exec) splitPath(p Str) (comps []Str, abs bool) {
	st := x.c.st
	slash := st.Const(8, '/')
	start := 0
	isSlash := func(t *Term) bool {
		if t.op == OpConst {
			return t.k == '/'
		}
		return x.c.Branch(st.Eq(t, slash))
	}
	for i := 0; i <= len(p.b); i++ {
		if i == len(p.b) || isSlash(p.b[i]) {
			if i == 0 && len(p.b) > 0 {
				abs = true
			}
			if i > start {
				comps = append(comps, Str{p.b[start:i:i]})
			}
			start = i + 1
		}
	}
	return
}

func (x *Exec) isDot(c Str) bool {
	if len(c.b) != 1 {
		return false
	}
	if c.b[0].op == OpConst {
		return c.b[0].k == '.'
	}
	return x.c.Branch(x.c.st.Eq(c.b[0], x.c.st.Const(8, '.')))
}
func (x *Exec) isDotDot(c Str) bool {
	st := x.c.st
	if len(c.b) == 2 && c.b[0].op == OpConst && c.b[1].op == OpConst {
		return c.b[0].k == '.' && c.b[1].k == '.'
	}
	return len(c.b) == 2 && x.c.Branch(st.And(st.Eq(c.b[0], st.Const(8, '.')), st.Eq(c.b[1], st.Const(8, '.'))))
}

func (n *FNode) find(x *Exec, name Str) *FEnt {
	for _, e := range n.ents {
		if len(e.name.b) != len(name.b) {
			continue
		}
		// fast path: both names concrete
		conc, same := true, true
		for i := range name.b {
			a, b := e.name.b[i], name.b[i]
			if a.op != OpConst || b.op != OpConst {
				conc = false
				break
			}
			if a.k != b.k {
				same = false
			}
		}
		if conc {
			if same {
				return e
			}
			continue
		}
		if x.c.Branch(x.eqVal(e.name, name)) {
			return e
		}
	}
	return nil
}

// resolve walks the path. Returns the node (nil if missing), its parent and final name, and an errno kind.
func (x *Exec) resolve(p Str) (node *FNode, parent *FNode, name Str, errk string) {
	if len(p.b) == 0 {
		return nil, nil, Str{}, "ENOENT"
	}
	for _, b := range p.b {
		// a NUL byte in a path is rejected by the os package before any system call (EINVAL)
		if b.op == OpConst && b.k != 0 {
			continue
		}
		if x.c.Branch(x.c.st.Eq(b, x.c.st.Const(8, 0))) {
			return nil, nil, Str{}, "EINVAL"
		}
	}
	comps, abs := x.splitPath(p)
	var all []Str
	if !abs {
		c0, _ := x.splitPath(x.fs.cwd)
		all = append(all, c0...)
	}
	all = append(all, comps...)
	type step struct {
		n *FNode
	}
	stack := []*FNode{x.fs.root}
	var lastName Str
	missing := false
	for i, c := range all {
		cur := stack[len(stack)-1]
		if missing {
			return nil, nil, c, "ENOENT"
		}
		if !cur.dir {
			return nil, nil, c, "ENOTDIR"
		}
		if x.isDot(c) {
			continue
		}
		if x.isDotDot(c) {
			if len(stack) > 1 {
				stack = stack[:len(stack)-1]
			}
			continue
		}
		e := cur.find(x, c)
		lastName = c
		if e == nil {
			if i == len(all)-1 {
				return nil, cur, c, "ENOENT"
			}
			missing = true
			continue
		}
		if i == len(all)-1 {
			return e.node, cur, c, ""
		}
		stack = append(stack, e.node)
	}
	// path ended in . or .. or was "/"
	n := stack[len(stack)-1]
	var par *FNode
	if len(stack) > 1 {
		par = stack[len(stack)-2]
	}
	return n, par, lastName, ""
}

func (x *Exec) pathErr(op string, p Str, kind string) Iface {
	msgs := map[string]string{"ENOENT": "no such file or directory", "ENOTDIR": "not a directory", "EEXIST": "file exists",
		"EISDIR": "is a directory", "ENOTEMPTY": "directory not empty", "EIO": "input/output error", "EINVAL": "invalid argument"}
	m := x.cstr(op + " ")
	m.b = append(append(m.b, p.b...), x.cstr(": "+msgs[kind]).b...)
	return x.newErr(m, kind)
}

// fallible: the k-th fallible call fails without effect (C16).
func (x *Exec) fallible(op string, p Str) (Iface, bool) {
	fs := x.fs
	fs.opCount++
	if traceFS {
		fmt.Fprintf(os.Stderr, "OP #%d %s %s\n", fs.opCount, op, p.show())
	}
	if x.proc != nil {
		x.proc.ops++
	}
	if fs.faultAt != nil && !fs.faulted {
		if x.c.Branch(x.c.st.Eq(fs.faultAt, x.intConst(int64(fs.opCount)))) {
			fs.faulted = true
			fs.opLog = append(fs.opLog, "FAULT@"+op+" "+p.show())
			x.c.notes = append(x.c.notes, fmt.Sprintf("fault: call #%d %s %s fails", fs.opCount, op, p.show()))
			return x.pathErr(op, p, "EIO"), true
		}
	}
	return Iface{}, false
}

// mutated: called after each file-system modification; the process dies right after mutation k (C15).
func (x *Exec) mutated(op string, p Str) {
	fs := x.fs
	if traceFS {
		fmt.Fprintf(os.Stderr, "FS %s %s\n", op, p.show())
	}
	fs.mutCount++
	if x.proc != nil {
		x.proc.muts++
	}
	if fs.crashAt != nil && !fs.crashed {
		if x.c.Branch(x.c.st.Eq(fs.crashAt, x.intConst(int64(fs.mutCount)))) {
			fs.crashed = true
			fs.mutLog = append(fs.mutLog, "CRASH after "+op+" "+p.show())
			x.c.notes = append(x.c.notes, fmt.Sprintf("crash: killed right after modification #%d %s %s", fs.mutCount, op, p.show()))
			panic(procCrash{})
		}
	}
}

func (x *Exec) sortedEnts(n *FNode) []*FEnt {
	ents := append([]*FEnt{}, n.ents...)
	// insertion sort with symbolic comparisons (os.ReadDir sorts by filename)
	for i := 1; i < len(ents); i++ {
		for j := i; j > 0; j-- {
			if !x.c.Branch(x.strLess(ents[j].name, ents[j-1].name, false)) {
				break
			}
			ents[j], ents[j-1] = ents[j-1], ents[j]
		}
	}
	return ents
}

func (x *Exec) fileBytes(n *FNode) Slice {
	if n.z != nil {
		// opaque compressed bytes: content never inspected by Goit except through zlib
		a := make([]Value, len(n.z.payload)+11)
		for i := range a {
			a[i] = x.c.st.Const(8, 0)
		}
		return Slice{a: a, tag: n.z}
	}
	return x.bytesSlice(n.data)
}

func (x *Exec) writeTo(f *FileObj, s Slice) {
	if s.tag != nil && f.node.z == nil && len(f.node.data) == 0 {
		f.node.z = s.tag
		return
	}
	if f.node.z != nil {
		// appending to a compressed stream: treat as raw garbage
		f.node.z = nil
		f.node.raw = true
		f.node.data = nil
	}
	for _, e := range s.a {
		f.node.data = append(f.node.data, e.(*Term))
	}
}

func init() {
	intrinsics["os.Getwd"] = func(x *Exec, a []Value) Value { return Tuple{x.fs.cwd, nilErr} }
	intrinsics["os.UserHomeDir"] = func(x *Exec, a []Value) Value { return Tuple{x.fs.home, nilErr} }
	intrinsics["os.Exit"] = func(x *Exec, a []Value) Value {
		c := a[0].(*Term)
		panic(procExit{int(sval(c.w, c.k))})
	}
	intrinsics["os.IsNotExist"] = func(x *Exec, a []Value) Value {
		ifc := a[0].(Iface)
		if ifc.t == nil {
			return x.c.st.False
		}
		e, ok := ifc.v.(*ErrObj)
		return x.c.st.Bool(ok && e.kind == "ENOENT")
	}
	intrinsics["os.Stat"] = func(x *Exec, a []Value) Value {
		p := a[0].(Str)
		n, _, name, ek := x.resolve(p)
		if ek != "" {
			return Tuple{Iface{}, x.pathErr("stat", p, ek)}
		}
		fi := &FileInfoObj{name: name, isDir: n.dir, size: len(n.data)}
		return Tuple{Iface{t: errorType /* any non-nil marker */, v: fi}, nilErr}
	}
	intrinsics["fs.FileInfo.IsDir"] = func(x *Exec, a []Value) Value { return x.c.st.Bool(a[0].(*FileInfoObj).isDir) }
	intrinsics["fs.FileInfo.Size"] = func(x *Exec, a []Value) Value { return x.intConst(int64(a[0].(*FileInfoObj).size)) }
	intrinsics["fs.FileInfo.Mode"] = func(x *Exec, a []Value) Value {
		if a[0].(*FileInfoObj).isDir {
			return x.c.st.Const(32, 1<<31|0o755)
		}
		return x.c.st.Const(32, 0o644)
	}
	intrinsics["(io/fs.FileMode).IsRegular"] = func(x *Exec, a []Value) Value {
		m := a[0].(*Term)
		return x.c.st.Eq(x.c.st.Bin(OpBAnd, m, x.c.st.Const(32, 0x8F280000)), x.c.st.Const(32, 0)) // no type bits set
	}
	intrinsics["(io/fs.FileMode).IsDir"] = func(x *Exec, a []Value) Value {
		m := a[0].(*Term)
		return x.c.st.Not(x.c.st.Eq(x.c.st.Bin(OpBAnd, m, x.c.st.Const(32, 1<<31)), x.c.st.Const(32, 0)))
	}
	intrinsics["fs.FileInfo.Name"] = func(x *Exec, a []Value) Value { return a[0].(*FileInfoObj).name }
	intrinsics["fs.DirEntry.IsDir"] = func(x *Exec, a []Value) Value { return x.c.st.Bool(a[0].(*DirEntryObj).isDir) }
	intrinsics["fs.DirEntry.Name"] = func(x *Exec, a []Value) Value { return a[0].(*DirEntryObj).name }

	intrinsics["os.ReadFile"] = func(x *Exec, a []Value) Value {
		p := a[0].(Str)
		if e, f := x.fallible("open", p); f {
			return Tuple{Slice{}, e}
		}
		n, _, _, ek := x.resolve(p)
		if ek != "" {
			return Tuple{Slice{}, x.pathErr("open", p, ek)}
		}
		if n.dir {
			return Tuple{Slice{}, x.pathErr("read", p, "EISDIR")}
		}
		if e, f := x.fallible("read", p); f {
			return Tuple{Slice{}, e}
		}
		s := x.fileBytes(n)
		if s.a == nil {
			s.a = []Value{}
		}
		return Tuple{s, nilErr}
	}
	create := func(x *Exec, p Str, trunc, appendMode bool) Value {
		if e, f := x.fallible("open", p); f {
			return Tuple{(*FileObj)(nil), e}
		}
		n, par, name, ek := x.resolve(p)
		if (ek != "" && ek != "ENOENT") || (ek == "ENOENT" && par == nil) {
			return Tuple{(*FileObj)(nil), x.pathErr("open", p, ek)}
		}
		if n != nil && n.dir {
			return Tuple{(*FileObj)(nil), x.pathErr("open", p, "EISDIR")}
		}
		if n == nil {
			n = &FNode{}
			par.ents = append(par.ents, &FEnt{name: name, node: n})
			x.mutated("create", p)
		} else if trunc {
			n.data, n.z, n.raw = nil, nil, false
			x.mutated("truncate", p)
		}
		return Tuple{&FileObj{node: n, path: p, write: true, append: appendMode}, nilErr}
	}
	intrinsics["os.Create"] = func(x *Exec, a []Value) Value { return create(x, a[0].(Str), true, false) }
	intrinsics["os.OpenFile"] = func(x *Exec, a []Value) Value {
		fl := a[1].(*Term)
		if fl.op != OpConst {
			x.engineErr("OpenFile symbolic flags")
		}
		const oWR, oCREAT, oAPPEND, oTRUNC = 1, 0x40, 0x400, 0x200
		if fl.k&oCREAT == 0 {
			x.engineErr("OpenFile without O_CREATE not modelled")
		}
		return create(x, a[0].(Str), fl.k&oTRUNC != 0, fl.k&oAPPEND != 0)
	}
	intrinsics["os.Open"] = func(x *Exec, a []Value) Value {
		p := a[0].(Str)
		if e, f := x.fallible("open", p); f {
			return Tuple{(*FileObj)(nil), e}
		}
		n, _, _, ek := x.resolve(p)
		if ek != "" {
			return Tuple{(*FileObj)(nil), x.pathErr("open", p, ek)}
		}
		return Tuple{&FileObj{node: n, path: p}, nilErr}
	}
	write := func(x *Exec, f *FileObj, s Slice) Value {
		if f == nil {
			return Tuple{x.intConst(0), x.newErrS("invalid argument", "EINVAL")}
		}
		if e, fl := x.fallible("write", f.path); fl {
			return Tuple{x.intConst(0), e}
		}
		if !f.write {
			return Tuple{x.intConst(0), x.pathErr("write", f.path, "EINVAL")}
		}
		x.writeTo(f, s)
		x.mutated("write", f.path)
		return Tuple{x.intConst(int64(len(s.a))), nilErr}
	}
	intrinsics["(*os.File).Write"] = func(x *Exec, a []Value) Value { return write(x, a[0].(*FileObj), a[1].(Slice)) }
	intrinsics["(*os.File).WriteString"] = func(x *Exec, a []Value) Value {
		return write(x, a[0].(*FileObj), x.bytesSlice(a[1].(Str).b))
	}
	intrinsics["*os.File.Write"] = intrinsics["(*os.File).Write"]
	intrinsics["(*os.File).Close"] = func(x *Exec, a []Value) Value {
		f := a[0].(*FileObj)
		if f == nil {
			return x.newErrS("invalid argument", "EINVAL")
		}
		f.closed = true
		return nilErr
	}
	intrinsics["*os.File.Close"] = intrinsics["(*os.File).Close"]
	intrinsics["(*os.File).Stat"] = func(x *Exec, a []Value) Value {
		f := a[0].(*FileObj)
		if f == nil {
			return Tuple{Iface{}, x.newErrS("invalid argument", "EINVAL")}
		}
		name := f.path
		for i := len(f.path.b) - 1; i >= 0; i-- {
			if t := f.path.b[i]; t.op == OpConst && t.k == '/' {
				name = Str{f.path.b[i+1:]}
				break
			}
		}
		return Tuple{Iface{t: errorType, v: &FileInfoObj{name: name, isDir: f.node.dir, size: len(f.node.data)}}, nilErr}
	}
	intrinsics["*os.File.Read"] = func(x *Exec, a []Value) Value {
		f := a[0].(*FileObj)
		dst := a[1].(Slice)
		if f.node.dir {
			return Tuple{x.intConst(0), x.pathErr("read", f.path, "EISDIR")}
		}
		if !f.readChecked {
			f.readChecked = true
			if e, fl := x.fallible("read", f.path); fl {
				return Tuple{x.intConst(0), e}
			}
		}
		if f.pos >= len(f.node.data) {
			return Tuple{x.intConst(0), x.errEOF()}
		}
		n := 0
		for n < len(dst.a) && f.pos < len(f.node.data) {
			dst.a[n] = f.node.data[f.pos]
			n++
			f.pos++
		}
		return Tuple{x.intConst(int64(n)), nilErr}
	}
	intrinsics["os.Mkdir"] = func(x *Exec, a []Value) Value {
		p := a[0].(Str)
		if e, f := x.fallible("mkdir", p); f {
			return e
		}
		n, par, name, ek := x.resolve(p)
		if n != nil {
			return x.pathErr("mkdir", p, "EEXIST")
		}
		if (ek != "" && ek != "ENOENT") || par == nil {
			return x.pathErr("mkdir", p, ek)
		}
		par.ents = append(par.ents, &FEnt{name: name, node: &FNode{dir: true}})
		x.mutated("mkdir", p)
		return nilErr
	}
	intrinsics["os.MkdirAll"] = func(x *Exec, a []Value) Value {
		p := a[0].(Str)
		if e, f := x.fallible("mkdir", p); f {
			return e
		}
		comps, abs := x.splitPath(p)
		var all []Str
		if !abs {
			c0, _ := x.splitPath(x.fs.cwd)
			all = append(all, c0...)
		}
		all = append(all, comps...)
		cur := x.fs.root
		for _, c := range all {
			if x.isDot(c) {
				continue
			}
			if x.isDotDot(c) {
				x.engineErr("MkdirAll with ..")
			}
			e := cur.find(x, c)
			if e == nil {
				nn := &FNode{dir: true}
				cur.ents = append(cur.ents, &FEnt{name: c, node: nn})
				x.mutated("mkdir", c)
				cur = nn
				continue
			}
			if !e.node.dir {
				return x.pathErr("mkdir", p, "ENOTDIR")
			}
			cur = e.node
		}
		return nilErr
	}
	intrinsics["os.Remove"] = func(x *Exec, a []Value) Value {
		p := a[0].(Str)
		if e, f := x.fallible("remove", p); f {
			return e
		}
		n, par, name, ek := x.resolve(p)
		if ek != "" {
			return x.pathErr("remove", p, ek)
		}
		if n.dir && len(n.ents) > 0 {
			return x.pathErr("remove", p, "ENOTEMPTY")
		}
		if par == nil {
			return x.pathErr("remove", p, "EINVAL")
		}
		for i, e := range par.ents {
			if e.node == n {
				par.ents = append(par.ents[:i:i], par.ents[i+1:]...)
				break
			}
		}
		_ = name
		x.mutated("remove", p)
		return nilErr
	}
	intrinsics["os.Rename"] = func(x *Exec, a []Value) Value {
		op, np := a[0].(Str), a[1].(Str)
		if e, f := x.fallible("rename", op); f {
			return e
		}
		n, par, _, ek := x.resolve(op)
		if ek != "" {
			return x.pathErr("rename", op, ek)
		}
		n2, par2, name2, ek2 := x.resolve(np)
		if ek2 == "ENOTDIR" || (n2 == nil && par2 == nil) {
			return x.pathErr("rename", np, ek2)
		}
		if n2 == n {
			return nilErr
		}
		if n2 != nil {
			if n2.dir != n.dir {
				if n2.dir {
					return x.pathErr("rename", np, "EISDIR")
				}
				return x.pathErr("rename", np, "ENOTDIR")
			}
			if n2.dir && len(n2.ents) > 0 {
				return x.pathErr("rename", np, "ENOTEMPTY")
			}
			for i, e := range par2.ents {
				if e.node == n2 {
					par2.ents = append(par2.ents[:i:i], par2.ents[i+1:]...)
					break
				}
			}
		}
		for i, e := range par.ents {
			if e.node == n {
				par.ents = append(par.ents[:i:i], par.ents[i+1:]...)
				break
			}
		}
		par2.ents = append(par2.ents, &FEnt{name: name2, node: n})
		x.mutated("rename", op)
		return nilErr
	}
	intrinsics["os.ReadDir"] = func(x *Exec, a []Value) Value {
		p := a[0].(Str)
		if e, f := x.fallible("readdir", p); f {
			return Tuple{Slice{}, e}
		}
		n, _, _, ek := x.resolve(p)
		if ek != "" {
			return Tuple{Slice{}, x.pathErr("open", p, ek)}
		}
		if !n.dir {
			return Tuple{Slice{}, x.pathErr("readdirent", p, "ENOTDIR")}
		}
		out := []Value{}
		for _, e := range x.sortedEnts(n) {
			out = append(out, Iface{t: errorType, v: &DirEntryObj{name: e.name, isDir: e.node.dir}})
		}
		return Tuple{Slice{a: out}, nilErr}
	}

	// (*os.File).ReadDir(n) on a directory handle: all entries (the model returns them in name order; n <= 0 only)
	intrinsics["(*os.File).ReadDir"] = func(x *Exec, a []Value) Value {
		f := a[0].(*FileObj)
		if f == nil {
			return Tuple{Slice{}, x.newErrS("invalid argument", "EINVAL")}
		}
		if cnt, ok := a[1].(*Term); !ok || cnt.op != OpConst || sval(cnt.w, cnt.k) > 0 {
			x.engineErr("(*os.File).ReadDir with a positive count is not modelled")
		}
		if e, fl := x.fallible("readdir", f.path); fl {
			return Tuple{Slice{}, e}
		}
		if !f.node.dir {
			return Tuple{Slice{}, x.pathErr("readdirent", f.path, "ENOTDIR")}
		}
		out := []Value{}
		for _, e := range x.sortedEnts(f.node) {
			out = append(out, Iface{t: errorType, v: &DirEntryObj{name: e.name, isDir: e.node.dir}})
		}
		return Tuple{Slice{a: out}, nilErr}
	}
	intrinsics["io/fs.FileInfoToDirEntry"] = func(x *Exec, a []Value) Value {
		ifc := a[0].(Iface)
		fi, ok := ifc.v.(*FileInfoObj)
		if !ok {
			return Iface{}
		}
		return Iface{t: errorType, v: &DirEntryObj{name: fi.name, isDir: fi.isDir}}
	}

	// ---- path/filepath (Unix) ----
	intrinsics["path/filepath.Clean"] = func(x *Exec, a []Value) Value { return x.clean(a[0].(Str)) }
	intrinsics["path/filepath.Join"] = func(x *Exec, a []Value) Value {
		var parts []Str
		for _, e := range a[0].(Slice).a {
			s := e.(Str)
			if len(s.b) > 0 {
				parts = append(parts, s)
			}
		}
		if len(parts) == 0 {
			return Str{}
		}
		var joined []*Term
		for i, p := range parts {
			if i > 0 {
				joined = append(joined, x.c.st.Const(8, '/'))
			}
			joined = append(joined, p.b...)
		}
		return x.clean(Str{joined})
	}
	intrinsics["path/filepath.Dir"] = func(x *Exec, a []Value) Value {
		p := a[0].(Str)
		st := x.c.st
		i := len(p.b) - 1
		for i >= 0 && !x.c.Branch(st.Eq(p.b[i], st.Const(8, '/'))) {
			i--
		}
		return x.clean(Str{p.b[: i+1 : i+1]})
	}
	intrinsics["path/filepath.Abs"] = func(x *Exec, a []Value) Value { return Tuple{x.abs(a[0].(Str)), nilErr} }
	intrinsics["path/filepath.Rel"] = func(x *Exec, a []Value) Value {
		base := x.clean(a[0].(Str))
		targ := x.clean(a[1].(Str))
		bc, babs := x.splitPath(base)
		tc, tabs := x.splitPath(targ)
		if babs != tabs {
			return Tuple{Str{}, x.newErrS("Rel: can't make relative", "")}
		}
		if len(bc) == 1 && x.isDot(bc[0]) {
			bc = nil
		}
		if len(tc) == 1 && x.isDot(tc[0]) {
			tc = nil
		}
		i := 0
		for i < len(bc) && i < len(tc) && len(bc[i].b) == len(tc[i].b) && x.c.Branch(x.eqVal(bc[i], tc[i])) {
			i++
		}
		var out []*Term
		for j := i; j < len(bc); j++ {
			if x.isDotDot(bc[j]) {
				return Tuple{Str{}, x.newErrS("Rel: can't make relative", "")}
			}
			if len(out) > 0 {
				out = append(out, x.c.st.Const(8, '/'))
			}
			out = append(out, x.cstr("..").b...)
		}
		for j := i; j < len(tc); j++ {
			if len(out) > 0 {
				out = append(out, x.c.st.Const(8, '/'))
			}
			out = append(out, tc[j].b...)
		}
		if len(out) == 0 {
			return Tuple{x.cstr("."), nilErr}
		}
		return Tuple{Str{out}, nilErr}
	}
}

func (x *Exec) abs(p Str) Str {
	if len(p.b) > 0 && x.c.Branch(x.c.st.Eq(p.b[0], x.c.st.Const(8, '/'))) {
		return x.clean(p)
	}
	j := append(append(append([]*Term{}, x.fs.cwd.b...), x.c.st.Const(8, '/')), p.b...)
	return x.clean(Str{j})
}

// clean implements filepath.Clean (Unix) component-wise.
func (x *Exec) clean(p Str) Str {
	if len(p.b) == 0 {
		return x.cstr(".")
	}
	comps, abs := x.splitPath(p)
	var out []Str
	for _, c := range comps {
		if x.isDot(c) {
			continue
		}
		if x.isDotDot(c) {
			if len(out) > 0 && !(len(out[len(out)-1].b) == 2 && x.isDotDot(out[len(out)-1])) {
				out = out[:len(out)-1]
				continue
			}
			if abs {
				continue
			}
		}
		out = append(out, c)
	}
	var r []*Term
	if abs {
		r = append(r, x.c.st.Const(8, '/'))
	}
	for i, c := range out {
		if i > 0 {
			r = append(r, x.c.st.Const(8, '/'))
		}
		r = append(r, c.b...)
	}
	if len(r) == 0 {
		return x.cstr(".")
	}
	return Str{r}
}

// ---------------------------------------------------------------------------
// snapshots of the model FS (used by harness oracles via zzvp)

type snapEnt struct {
	path string // concrete rendering for ordering only
	p    Str
	n    *FNode
}

func (x *Exec) walkFS(n *FNode, prefix Str, out *[]snapEnt) {
	for _, e := range n.ents {
		var p Str
		if len(prefix.b) > 0 {
			p = Str{append(append(append([]*Term{}, prefix.b...), x.c.st.Const(8, '/')), e.name.b...)}
		} else {
			p = e.name
		}
		*out = append(*out, snapEnt{path: p.show(), p: p, n: e.node})
		if e.node.dir {
			x.walkFS(e.node, p, out)
		}
	}
}

func sortSnap(s []snapEnt) { sort.SliceStable(s, func(i, j int) bool { return s[i].path < s[j].path }) }
