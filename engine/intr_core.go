package main

// Intrinsic models: errors, fmt, strings, strconv, hex, sort, color.

import (
	"fmt"
	"go/types"
	"strconv"
	"strings"

	"golang.org/x/tools/go/ssa"
)

var errorType = types.Universe.Lookup("error").Type()

type ErrObj struct {
	msg  Str
	wrap *ErrObj
	kind string // ENOENT, ENOTDIR, EEXIST, EISDIR, ENOTEMPTY, EIO, EOF ...
}

func (x *Exec) newErr(msg Str, kind string) Iface {
	return Iface{t: errorType, v: &ErrObj{msg: msg, kind: kind}}
}
func (x *Exec) newErrS(msg string, kind string) Iface { return x.newErr(x.cstr(msg), kind) }

var nilErr = Iface{}

// model object type keys (used for interface-method dispatch)
func modelTypeOf(v Value) (string, bool) {
	if p, ok := v.(*Value); ok && p != nil {
		v = *p
	}
	switch v.(type) {
	case *ErrObj:
		return "error", true
	case *FileObj:
		return "*os.File", true
	case *BufObj:
		return "*bytes.Buffer", true
	case *ReaderObj:
		return "*bytes.Reader", true
	case *ZWriterObj:
		return "*zlib.Writer", true
	case *ZReaderObj:
		return "zlib.reader", true
	case *TeeObj:
		return "io.teeReader", true
	case *LimitObj:
		return "*io.LimitedReader", true
	case *HashObj:
		return "hash.Hash", true
	case *ScannerObj:
		return "*bufio.Scanner", true
	case *DirEntryObj:
		return "fs.DirEntry", true
	case *FileInfoObj:
		return "fs.FileInfo", true
	}
	return "", false
}

func deref(v Value) Value {
	if p, ok := v.(*Value); ok && p != nil {
		return *p
	}
	return v
}

func (x *Exec) externGlobal(g *ssa.Global) (Value, bool) {
	switch g.String() {
	case "io.EOF":
		return x.errEOF(), true
	case "io.ErrUnexpectedEOF":
		return x.errUEOF(), true
	case "io/fs.SkipDir", "io/fs.SkipAll", "io/fs.ErrNotExist", "io/fs.ErrExist", "io/fs.ErrInvalid", "io/fs.ErrPermission", "io/fs.ErrClosed":
		// sentinel errors with a stable identity within a path
		if x.sentinels == nil {
			x.sentinels = map[string]Iface{}
		}
		if e, ok := x.sentinels[g.String()]; ok {
			return e, true
		}
		e := x.newErrS(g.Name(), "")
		x.sentinels[g.String()] = e
		return e, true
	}
	return nil, false
}

// io.EOF identity must be stable within a path.
func (x *Exec) errEOF() Iface {
	if x.eofErr == nil {
		e := x.newErrS("EOF", "EOF")
		x.eofErr = &e
	}
	return *x.eofErr
}
func (x *Exec) errUEOF() Iface {
	if x.ueofErr == nil {
		e := x.newErrS("unexpected EOF", "UEOF")
		x.ueofErr = &e
	}
	return *x.ueofErr
}

func init() {
	intrinsics["internal/bytealg.MakeNoZero"] = func(x *Exec, a []Value) Value {
		n := x.allocLen(a[0].(*Term))
		out := make([]Value, n)
		for i := range out {
			out[i] = x.c.st.Const(8, 0)
		}
		return Slice{a: out}
	}
	intrinsics["internal/abi.NoEscape"] = func(x *Exec, a []Value) Value { return a[0] }
	intrinsics["errors.New"] = func(x *Exec, a []Value) Value { return x.newErr(a[0].(Str), "") }
	intrinsics["error.Error"] = func(x *Exec, a []Value) Value { return a[0].(*ErrObj).msg }

	intrinsics["fmt.Sprintf"] = func(x *Exec, a []Value) Value { return x.sprintf(a[0].(Str), a[1].(Slice).a) }
	intrinsics["fmt.Sprint"] = func(x *Exec, a []Value) Value { return x.sprint(a[0].(Slice).a, false) }
	intrinsics["fmt.Errorf"] = func(x *Exec, a []Value) Value {
		args := a[1].(Slice).a
		msg := x.sprintf(a[0].(Str), args)
		e := &ErrObj{msg: msg}
		f, _ := a[0].(Str).concrete()
		if strings.Contains(f, "%w") {
			for _, arg := range args {
				if ifc, ok := arg.(Iface); ok {
					if w, ok := ifc.v.(*ErrObj); ok {
						e.wrap = w
					}
				}
			}
		}
		return Iface{t: errorType, v: e}
	}
	intrinsics["fmt.Printf"] = func(x *Exec, a []Value) Value {
		x.stdout(x.sprintf(a[0].(Str), a[1].(Slice).a))
		return Tuple{x.intConst(0), nilErr}
	}
	intrinsics["fmt.Println"] = func(x *Exec, a []Value) Value {
		s := x.sprint(a[0].(Slice).a, true)
		s.b = append(append([]*Term{}, s.b...), x.c.st.Const(8, '\n'))
		x.stdout(s)
		return Tuple{x.intConst(0), nilErr}
	}
	intrinsics["fmt.Sscanf"] = func(x *Exec, a []Value) Value { return x.sscanf(a[0].(Str), a[1].(Str), a[2].(Slice).a) }

	for _, n := range []string{"BlueString", "GreenString", "RedString", "YellowString"} {
		intrinsics["github.com/fatih/color."+n] = func(x *Exec, a []Value) Value { return x.sprintf(a[0].(Str), a[1].(Slice).a) }
	}
	intrinsics["github.com/fatih/color.Green"] = func(x *Exec, a []Value) Value {
		s := x.sprintf(a[0].(Str), a[1].(Slice).a)
		s.b = append(append([]*Term{}, s.b...), x.c.st.Const(8, '\n'))
		x.stdout(s)
		return nil
	}

	intrinsics["strings.Split"] = func(x *Exec, a []Value) Value { return x.strSplit(a[0].(Str), a[1].(Str), -1) }
	intrinsics["strings.SplitN"] = func(x *Exec, a []Value) Value {
		n := a[2].(*Term)
		if n.op != OpConst {
			x.engineErr("SplitN symbolic n")
		}
		return x.strSplit(a[0].(Str), a[1].(Str), int(sval(n.w, n.k)))
	}
	intrinsics["strings.Join"] = func(x *Exec, a []Value) Value {
		var out []*Term
		sep := a[1].(Str)
		for i, e := range a[0].(Slice).a {
			if i > 0 {
				out = append(out, sep.b...)
			}
			out = append(out, e.(Str).b...)
		}
		return Str{out}
	}
	intrinsics["strings.Repeat"] = func(x *Exec, a []Value) Value {
		n := a[1].(*Term)
		if n.op != OpConst {
			x.engineErr("Repeat symbolic n")
		}
		var out []*Term
		for i := int64(0); i < sval(n.w, n.k); i++ {
			out = append(out, a[0].(Str).b...)
		}
		return Str{out}
	}
	intrinsics["strings.ReplaceAll"] = func(x *Exec, a []Value) Value { return x.strReplace(a[0].(Str), a[1].(Str), a[2].(Str)) }
	intrinsics["strings.Replace"] = func(x *Exec, a []Value) Value {
		n := a[3].(*Term)
		if n.op != OpConst || sval(n.w, n.k) >= 0 {
			x.engineErr("strings.Replace with n>=0 not modelled")
		}
		return x.strReplace(a[0].(Str), a[1].(Str), a[2].(Str))
	}
	intrinsics["strings.ToLower"] = func(x *Exec, a []Value) Value {
		st := x.c.st
		s := a[0].(Str)
		out := make([]*Term, len(s.b))
		for i, b := range s.b {
			isUp := st.And(st.Cmp(OpUle, st.Const(8, 'A'), b), st.Cmp(OpUle, b, st.Const(8, 'Z')))
			out[i] = st.Ite(isUp, st.Bin(OpAdd, b, st.Const(8, 32)), b)
			if b.op == OpConst && b.k >= 0x80 {
				x.engineErr("ToLower non-ASCII")
			}
		}
		return Str{out}
	}
	intrinsics["strings.TrimSpace"] = func(x *Exec, a []Value) Value {
		s := a[0].(Str)
		lo, hi := 0, len(s.b)
		for lo < hi && x.c.Branch(x.isSpace(s.b[lo])) {
			lo++
		}
		for hi > lo && x.c.Branch(x.isSpace(s.b[hi-1])) {
			hi--
		}
		return Str{s.b[lo:hi:hi]}
	}
	intrinsics["strconv.Atoi"] = func(x *Exec, a []Value) Value { return x.parseInt(a[0].(Str), "Atoi") }
	intrinsics["strconv.ParseInt"] = func(x *Exec, a []Value) Value {
		base, bits := a[1].(*Term), a[2].(*Term)
		if base.op != OpConst || bits.op != OpConst {
			x.engineErr("strconv.ParseInt with a symbolic base or size")
		}
		if str, ok := a[0].(Str).concrete(); ok {
			// concrete text: the real library decides (every base, every size, range errors)
			v, err := strconv.ParseInt(str, int(sval(base.w, base.k)), int(sval(bits.w, bits.k)))
			if err != nil {
				return Tuple{x.intConst(v), x.newErrS(err.Error(), "")}
			}
			return Tuple{x.intConst(v), nilErr}
		}
		if b := sval(base.w, base.k); b != 10 {
			x.engineErr("strconv.ParseInt of symbolic text in base %d", b)
		}
		r := x.parseInt(a[0].(Str), "ParseInt").(Tuple)
		if n := sval(bits.w, bits.k); n != 0 && n != 64 && r[1].(Iface).t == nil {
			// narrower result type: values outside it are range errors (the value is clamped)
			v := r[0].(*Term)
			st := x.c.st
			hi := int64(1)<<(uint(n)-1) - 1
			if x.c.Branch(st.Cmp(OpSlt, st.Const(64, uint64(hi)), v)) {
				return Tuple{x.intConst(hi), x.newErrS("strconv.ParseInt: value out of range", "")}
			}
			if x.c.Branch(st.Cmp(OpSlt, v, st.Const(64, uint64(-hi-1)))) {
				return Tuple{x.intConst(-hi - 1), x.newErrS("strconv.ParseInt: value out of range", "")}
			}
		}
		return r
	}
	intrinsics["strconv.ParseUint"] = func(x *Exec, a []Value) Value {
		base, bits := a[1].(*Term), a[2].(*Term)
		str, ok := a[0].(Str).concrete()
		if !ok || base.op != OpConst || bits.op != OpConst {
			// symbolic text: decimal digits only, up to 18 of them (no overflow possible), 64-bit result
			if base.op == OpConst && bits.op == OpConst && sval(base.w, base.k) == 10 && (sval(bits.w, bits.k) == 64 || sval(bits.w, bits.k) == 0) && len(a[0].(Str).b) <= 18 {
				s := a[0].(Str)
				if len(s.b) == 0 {
					return Tuple{x.intConst(0), x.newErrS("strconv.ParseUint: invalid syntax", "")}
				}
				for _, d := range s.b {
					if !x.c.Branch(x.isDigit(d)) {
						return Tuple{x.intConst(0), x.newErrS("strconv.ParseUint: invalid syntax", "")}
					}
				}
				return Tuple{x.horner(s.b), nilErr}
			}
			x.engineErr("strconv.ParseUint of long or non-decimal symbolic text")
		}
		v, err := strconv.ParseUint(str, int(sval(base.w, base.k)), int(sval(bits.w, bits.k)))
		if err != nil {
			return Tuple{x.c.st.Const(64, v), x.newErrS(err.Error(), "")}
		}
		return Tuple{x.c.st.Const(64, v), nilErr}
	}

	intrinsics["encoding/hex.EncodeToString"] = func(x *Exec, a []Value) Value {
		src := a[0].(Slice)
		out := make([]*Term, 0, 2*len(src.a))
		for _, e := range src.a {
			b := e.(*Term)
			out = append(out, x.hexDigit(x.c.st.Extract(b, 7, 4)), x.hexDigit(x.c.st.Extract(b, 3, 0)))
		}
		return Str{out}
	}
	intrinsics["encoding/hex.DecodeString"] = func(x *Exec, a []Value) Value {
		s := a[0].(Str)
		st := x.c.st
		var out []Value
		for i := 0; i+1 < len(s.b); i += 2 {
			hi, ok1 := x.unhex(s.b[i])
			if !ok1 {
				return Tuple{x.bytesSlice(nil), x.newErrS("encoding/hex: invalid byte", "")}
			}
			lo, ok2 := x.unhex(s.b[i+1])
			if !ok2 {
				return Tuple{x.bytesSlice(nil), x.newErrS("encoding/hex: invalid byte", "")}
			}
			if hi.op == OpZext && lo.op == OpZext && hi.a.op == OpExtract && lo.a.op == OpExtract && hi.a.a == lo.a.a &&
				hi.a.k == (7<<8|4) && lo.a.k == (3<<8|0) && hi.a.a.w == 8 {
				out = append(out, hi.a.a) // decode(encode(b)) = b
				continue
			}
			out = append(out, st.Bin(OpBOr, st.Bin(OpShl, st.Zext(hi, 8), st.Const(8, 4)), st.Zext(lo, 8)))
		}
		if len(s.b)%2 == 1 {
			// odd length: error after decoding the valid prefix (Go checks the last char first for validity)
			if _, ok := x.unhex(s.b[len(s.b)-1]); !ok {
				return Tuple{Slice{a: out}, x.newErrS("encoding/hex: invalid byte", "")}
			}
			return Tuple{Slice{a: out}, x.newErrS("encoding/hex: odd length hex string", "")}
		}
		if out == nil {
			out = []Value{}
		}
		return Tuple{Slice{a: out}, nilErr}
	}

	intrinsics["sort.Slice"] = func(x *Exec, a []Value) Value {
		sl := a[0].(Iface).v.(Slice)
		less := a[1]
		n := len(sl.a)
		// insertion sort through the program's own less closure; elements swapped in place
		for i := 1; i < n; i++ {
			for j := i; j > 0; j-- {
				r := x.callValue(less, []Value{x.intConst(int64(j)), x.intConst(int64(j - 1))}).(*Term)
				if !x.c.Branch(r) {
					break
				}
				sl.a[j], sl.a[j-1] = sl.a[j-1], sl.a[j]
			}
		}
		return nil
	}
	intrinsics["runtime/debug.ReadBuildInfo"] = func(x *Exec, a []Value) Value {
		return Tuple{(*Value)(nil), x.c.st.False}
	}
}

func (x *Exec) isSpace(b *Term) *Term {
	st := x.c.st
	r := st.False
	for _, c := range []uint64{' ', '\t', '\n', '\v', '\f', '\r'} {
		r = st.Or(r, st.Eq(b, st.Const(8, c)))
	}
	if b.op == OpConst && b.k >= 0x80 {
		x.engineErr("TrimSpace: non-ASCII byte")
	}
	return r
}

func (x *Exec) hexDigit(n *Term) *Term {
	st := x.c.st
	n8 := st.Zext(n, 8)
	if n8.op == OpConst {
		return st.Const(8, uint64("0123456789abcdef"[n8.k]))
	}
	r := st.Ite(st.Cmp(OpUlt, n8, st.Const(8, 10)), st.Bin(OpAdd, n8, st.Const(8, '0')), st.Bin(OpAdd, n8, st.Const(8, 'a'-10)))
	if x.hexOf == nil {
		x.hexOf = map[*Term]*Term{}
	}
	x.hexOf[r] = n // provenance: r is the lower-case hex digit of the 4-bit term n
	return r
}

// unhex returns the 4-bit value (as 8-bit term) of a hex digit char, forking on validity.
func (x *Exec) unhex(c *Term) (*Term, bool) {
	st := x.c.st
	if n, ok := x.hexOf[c]; ok {
		return st.Zext(n, 8), true
	}
	isDig := st.And(st.Cmp(OpUle, st.Const(8, '0'), c), st.Cmp(OpUle, c, st.Const(8, '9')))
	isLow := st.And(st.Cmp(OpUle, st.Const(8, 'a'), c), st.Cmp(OpUle, c, st.Const(8, 'f')))
	isUp := st.And(st.Cmp(OpUle, st.Const(8, 'A'), c), st.Cmp(OpUle, c, st.Const(8, 'F')))
	valid := st.Or(isDig, st.Or(isLow, isUp))
	if !x.c.Branch(valid) {
		return nil, false
	}
	v := st.Ite(isDig, st.Bin(OpSub, c, st.Const(8, '0')), st.Ite(isLow, st.Bin(OpSub, c, st.Const(8, 'a'-10)), st.Bin(OpSub, c, st.Const(8, 'A'-10))))
	return v, true
}

// matchAt: Bool term for "sep occurs in s at position i".
func (x *Exec) matchAt(s, sep Str, i int) *Term {
	st := x.c.st
	if i+len(sep.b) > len(s.b) {
		return st.False
	}
	r := st.True
	for j := range sep.b {
		r = st.And(r, st.Eq(s.b[i+j], sep.b[j]))
		if r.IsFalse() {
			return r
		}
	}
	return r
}

// strIndex finds the first occurrence of sep at or after from, forking per position.
func (x *Exec) strIndex(s, sep Str, from int) int {
	for i := from; i+len(sep.b) <= len(s.b); i++ {
		if x.c.Branch(x.matchAt(s, sep, i)) {
			return i
		}
	}
	return -1
}

func (x *Exec) strSplit(s, sep Str, n int) Value {
	if len(sep.b) == 0 {
		x.engineErr("Split with empty separator")
	}
	if n == 0 {
		return Slice{}
	}
	var parts []Value
	start := 0
	for n < 0 || len(parts) < n-1 {
		i := x.strIndex(s, sep, start)
		if i < 0 {
			break
		}
		parts = append(parts, Str{s.b[start:i:i]})
		start = i + len(sep.b)
	}
	parts = append(parts, Str{s.b[start:len(s.b):len(s.b)]})
	return Slice{a: parts}
}

func (x *Exec) strReplace(s, old, new Str) Value {
	if len(old.b) == 0 {
		x.engineErr("Replace with empty old")
	}
	var out []*Term
	start := 0
	for {
		i := x.strIndex(s, old, start)
		if i < 0 {
			break
		}
		out = append(out, s.b[start:i]...)
		out = append(out, new.b...)
		start = i + len(old.b)
	}
	if start == 0 {
		return s
	}
	out = append(out, s.b[start:]...)
	return Str{out}
}

func (x *Exec) isDigit(b *Term) *Term {
	st := x.c.st
	return st.And(st.Cmp(OpUle, st.Const(8, '0'), b), st.Cmp(OpUle, b, st.Const(8, '9')))
}

func (x *Exec) horner(digs []*Term) *Term {
	st := x.c.st
	v := st.Const(64, 0)
	for _, d := range digs {
		v = st.Bin(OpAdd, st.Bin(OpMul, v, st.Const(64, 10)), st.Zext(st.Bin(OpSub, d, st.Const(8, '0')), 64))
	}
	return v
}

// parseInt models strconv.Atoi / ParseInt(s,10,64): optional sign, then 1..18 digits (19+ digits: range error path).
func (x *Exec) parseInt(s Str, fn string) Value {
	st := x.c.st
	bad := func() Value {
		return Tuple{x.intConst(0), x.newErr(Str{append(x.cstr("strconv."+fn+": parsing \"").b, append(append([]*Term{}, s.b...), x.cstr("\": invalid syntax").b...)...)}, "")}
	}
	digs := s.b
	neg := false
	if len(digs) == 0 {
		return bad()
	}
	if x.c.Branch(st.Eq(digs[0], st.Const(8, '-'))) {
		neg = true
		digs = digs[1:]
	} else if x.c.Branch(st.Eq(digs[0], st.Const(8, '+'))) {
		digs = digs[1:]
	}
	if len(digs) == 0 {
		return bad()
	}
	for _, d := range digs {
		// note: underscores are only accepted with base 0
		if !x.c.Branch(x.isDigit(d)) {
			return bad()
		}
	}
	if len(digs) > 18 {
		x.c.notes = append(x.c.notes, "parseInt: >18 digits treated as out of range")
		return Tuple{x.intConst(0), x.newErrS("strconv."+fn+": value out of range", "")}
	}
	v := x.horner(digs)
	if neg {
		v = st.Bin(OpSub, st.Const(64, 0), v)
	}
	return Tuple{v, nilErr}
}

// ---------------------------------------------------------------------------
// fmt

func (x *Exec) stdout(s Str) {
	if x.proc != nil {
		x.proc.out = append(x.proc.out, s.b...)
	}
}

// decimal renders a 64-bit signed integer term.
func (x *Exec) decimal(t *Term, plus bool) []*Term {
	st := x.c.st
	if t.w != 64 {
		x.engineErr("decimal of %d-bit value", t.w)
	}
	if t.op == OpConst {
		s := fmt.Sprintf("%d", sval(t.w, t.k))
		if plus && sval(t.w, t.k) >= 0 {
			s = "+" + s
		}
		return x.cstr(s).b
	}
	if t.dec != nil {
		out := append([]*Term{}, t.dec...)
		if plus {
			out = append([]*Term{st.Const(8, '+')}, out...)
		}
		return out
	}
	var out []*Term
	mag := t
	if x.c.Branch(st.Cmp(OpSlt, t, st.Const(64, 0))) {
		out = append(out, st.Const(8, '-'))
		mag = st.Bin(OpSub, st.Const(64, 0), t)
	} else if plus {
		out = append(out, st.Const(8, '+'))
	}
	// digit count by case split, digits as fresh witnesses tied by Horner (no division)
	lim := uint64(10)
	n := 1
	for n < 19 {
		if x.c.Branch(st.Cmp(OpUlt, mag, st.Const(64, lim))) {
			break
		}
		lim *= 10
		n++
	}
	digs := make([]*Term, n)
	var dom [4]uint64
	for c := '0'; c <= '9'; c++ {
		dom[c>>6] |= 1 << (uint(c) & 63)
	}
	for i := range digs {
		digs[i] = x.c.FreshVar("dg", 8, &dom)
	}
	x.c.Assume(st.Eq(x.horner(digs), mag))
	if n > 1 {
		x.c.Assume(st.Not(st.Eq(digs[0], st.Const(8, '0'))))
	}
	return append(out, digs...)
}

func (x *Exec) toInt64(v Value, t types.Type) (*Term, bool) {
	tm, ok := v.(*Term)
	if !ok || tm.w == 0 {
		return nil, false
	}
	ii, ok := basicInfo(t)
	if !ok {
		return nil, false
	}
	if ii.signed {
		r := x.c.st.Sext(tm, 64)
		if tm.w == 64 {
			r = tm
		}
		return r, true
	}
	return x.c.st.Zext(tm, 64), true
}

// fmtArg renders one operand for %s / %v.
func (x *Exec) fmtArg(arg Value, verb byte) []*Term {
	ifc, ok := arg.(Iface)
	if !ok {
		x.engineErr("fmt operand is not an interface: %T", arg)
	}
	if ifc.t == nil {
		if verb == 's' {
			return x.cstr("%!s(<nil>)").b
		}
		return x.cstr("<nil>").b
	}
	v := ifc.v
	if e, ok := v.(*ErrObj); ok {
		return e.msg.b
	}
	if tv, ok := v.(TimeVal); ok {
		_ = tv
		return x.cstr("<time>").b
	}
	if _, isModel := modelTypeOf(v); !isModel {
		if x.hasMethod(ifc.t, "Error") {
			return x.callMethod(ifc, "Error", nil, nil).(Str).b
		}
		if x.hasMethod(ifc.t, "String") {
			return x.callMethod(ifc, "String", nil, nil).(Str).b
		}
	}
	switch v := v.(type) {
	case Str:
		return v.b
	case Slice:
		if s, ok := under(ifc.t).(*types.Slice); ok {
			if ii, ok := basicInfo(s.Elem()); ok && ii.w == 8 && !ii.signed {
				if verb == 's' {
					return x.strOf(v).b
				}
				// %v of []byte: [1 2 3]
				out := x.cstr("[").b
				for i, e := range v.a {
					if i > 0 {
						out = append(out, x.c.st.Const(8, ' '))
					}
					out = append(out, x.decimal(x.c.st.Zext(e.(*Term), 64), false)...)
				}
				return append(out, x.c.st.Const(8, ']'))
			}
		}
	case *Term:
		if v.w == 0 {
			if x.c.Branch(v) {
				return x.cstr("true").b
			}
			return x.cstr("false").b
		}
		if t64, ok := x.toInt64(v, ifc.t); ok {
			if verb == 's' {
				return append(append(x.cstr("%!s(").b, x.cstr(ifc.t.String()+"=").b...), append(x.decimal(t64, false), x.c.st.Const(8, ')'))...)
			}
			return x.decimal(t64, false)
		}
	}
	x.engineErr("fmt: unsupported operand %T (%s) for %%%c", v, ifc.t, verb)
	return nil
}

func (x *Exec) sprint(args []Value, ln bool) Str {
	var out []*Term
	for i, a := range args {
		if i > 0 && ln {
			out = append(out, x.c.st.Const(8, ' '))
		}
		// Sprint adds spaces between operands when neither is a string; Goit only passes single operands
		if i > 0 && !ln {
			x.engineErr("fmt.Sprint with several operands not modelled")
		}
		out = append(out, x.fmtArg(a, 'v')...)
	}
	return Str{out}
}

// fmtByte decides a (possibly symbolic) byte of a format string against the characters that matter to fmt.
func (x *Exec) fmtByte(t *Term, candidates string) (byte, bool) {
	if t.op == OpConst {
		return byte(t.k), true
	}
	for i := 0; i < len(candidates); i++ {
		if x.c.Branch(x.c.st.Eq(t, x.c.st.Const(8, uint64(candidates[i])))) {
			return candidates[i], true
		}
	}
	return 0, false
}

func (x *Exec) sprintf(format Str, args []Value) Str {
	st := x.c.st
	f := format.b
	var out []*Term
	ai := 0
	for i := 0; i < len(f); i++ {
		c, known := x.fmtByte(f[i], "%")
		if !known || c != '%' {
			out = append(out, f[i])
			continue
		}
		i++
		if i >= len(f) {
			out = append(out, x.cstr("%!(NOVERB)").b...)
			break
		}
		var minus, plus, zero bool
		width := 0
		var verb byte
		verbKnown := false
		stage := 0 // 0 flags, 1 width
		for ; i < len(f); i++ {
			b, ok := x.fmtByte(f[i], "%svwdqx-+0123456789 #")
			if !ok {
				verb, verbKnown = 0, false
				break
			}
			if stage == 0 {
				switch b {
				case '-':
					minus = true
					continue
				case '+':
					plus = true
					continue
				case '0':
					zero = true
					continue
				case ' ', '#':
					continue
				}
				stage = 1
			}
			if b >= '0' && b <= '9' {
				width = width*10 + int(b-'0')
				continue
			}
			verb, verbKnown = b, true
			break
		}
		if i >= len(f) {
			out = append(out, x.cstr("%!(NOVERB)").b...)
			break
		}
		if verbKnown && verb == '%' {
			out = append(out, st.Const(8, '%'))
			continue
		}
		if ai >= len(args) {
			out = append(out, x.cstr("%!").b...)
			out = append(out, f[i])
			out = append(out, x.cstr("(MISSING)").b...)
			continue
		}
		arg := args[ai]
		ai++
		var body []*Term
		if !verbKnown {
			// a verb fmt does not know: "%!c(type=value)"; the exact rendering of the operand is not modelled
			body = append(x.cstr("%!").b, f[i])
			body = append(body, x.cstr("(BADVERB)").b...)
			out = append(out, body...)
			continue
		}
		switch verb {
		case 's', 'v', 'w':
			vb := verb
			if vb == 'w' {
				vb = 'v'
			}
			body = x.fmtArg(arg, vb)
			if plus && verb == 'v' {
				x.engineErr("%%+v not modelled")
			}
		case 'd':
			ifc := arg.(Iface)
			t64, ok := x.toInt64(ifc.v, ifc.t)
			if !ok {
				x.engineErr("%%d of %T", ifc.v)
			}
			body = x.decimal(t64, plus)
			if zero && !minus && width > len(body) {
				// zero padding goes after the sign
				sign := 0
				if len(body) > 0 && body[0].op == OpConst && (body[0].k == '-' || body[0].k == '+') {
					sign = 1
				}
				pad := make([]*Term, 0, width)
				pad = append(pad, body[:sign]...)
				for k := 0; k < width-len(body); k++ {
					pad = append(pad, st.Const(8, '0'))
				}
				pad = append(pad, body[sign:]...)
				body = pad
			}
		default:
			// a verb that does not apply: fmt prints "%!c(type=value)"
			body = append(x.cstr("%!").b, st.Const(8, uint64(verb)))
			if ifc, ok := arg.(Iface); ok && ifc.t != nil {
				body = append(body, x.cstr("("+ifc.t.String()+"=").b...)
				body = append(body, x.fmtArg(arg, 'v')...)
				body = append(body, st.Const(8, ')'))
			} else {
				body = append(body, x.cstr("(<nil>)").b...)
			}
			width = 0
		}
		if width > len(body) {
			padn := width - len(body)
			sp := make([]*Term, padn)
			for k := range sp {
				sp[k] = st.Const(8, ' ')
			}
			if minus {
				body = append(append([]*Term{}, body...), sp...)
			} else {
				body = append(sp, body...)
			}
		}
		out = append(out, body...)
	}
	if ai < len(args) {
		out = append(out, x.cstr("%!(EXTRA …)").b...)
	}
	return Str{out}
}

// sscanf models fmt.Sscanf for the formats Goit uses: "%d", "+%02d%02d", "-%02d%02d".
func (x *Exec) sscanf(input, format Str, ptrs []Value) Value {
	f, ok := format.concrete()
	if !ok {
		x.engineErr("symbolic Sscanf format")
	}
	st := x.c.st
	pos := 0
	pi := 0
	nset := int64(0)
	fail := func(msg string) Value { return Tuple{x.intConst(nset), x.newErrS(msg, "")} }
	for i := 0; i < len(f); i++ {
		c := f[i]
		if c != '%' {
			// literal must match
			if pos >= len(input.b) {
				return fail("unexpected EOF")
			}
			if !x.c.Branch(st.Eq(input.b[pos], st.Const(8, uint64(c)))) {
				return fail("input does not match format")
			}
			pos++
			continue
		}
		i++
		width := -1
		if i < len(f) && f[i] >= '0' && f[i] <= '9' {
			width = 0
			for ; i < len(f) && f[i] >= '0' && f[i] <= '9'; i++ {
				width = width*10 + int(f[i]-'0')
			}
		}
		if f[i] != 'd' {
			x.engineErr("Sscanf verb %%%c not modelled", f[i])
		}
		// SkipSpace: blanks are skipped, a newline is an error
		for pos < len(input.b) {
			b := input.b[pos]
			if x.c.Branch(st.Eq(b, st.Const(8, '\n'))) {
				return fail("unexpected newline")
			}
			isSp := st.OrN(st.Eq(b, st.Const(8, ' ')), st.Eq(b, st.Const(8, '\t')), st.Eq(b, st.Const(8, '\r')))
			if b.op == OpConst && b.k >= 0x80 {
				break
			}
			if !x.c.Branch(isSp) {
				break
			}
			pos++
		}
		if pos >= len(input.b) {
			return fail("unexpected EOF")
		}
		end := len(input.b)
		if width >= 0 && pos+width < end {
			end = pos + width
		}
		neg := false
		p := pos
		if p < end {
			if x.c.Branch(st.Eq(input.b[p], st.Const(8, '-'))) {
				neg = true
				p++
			} else if x.c.Branch(st.Eq(input.b[p], st.Const(8, '+'))) {
				p++
			}
		}
		var digs []*Term
		under := false
		for p < end {
			b := input.b[p]
			if x.c.Branch(x.isDigit(b)) {
				digs = append(digs, b)
				p++
				continue
			}
			if x.c.Branch(st.Eq(b, st.Const(8, '_'))) {
				under = true
				digs = append(digs, b)
				p++
				continue
			}
			break
		}
		if len(digs) == 0 {
			return fail("expected integer")
		}
		if under {
			return fail("strconv.ParseInt: invalid syntax")
		}
		if len(digs) > 18 {
			x.c.notes = append(x.c.notes, "Sscanf: >18 digits treated as out of range")
			return fail("integer overflow")
		}
		v := x.horner(digs)
		if neg {
			v = st.Bin(OpSub, st.Const(64, 0), v)
		}
		pos = p
		ptr := ptrs[pi].(Iface).v.(*Value)
		pi++
		*ptr = v
		nset++
	}
	return Tuple{x.intConst(nset), nilErr}
}

func init() {
	// runtime-assisted helpers below strings/bytes (assembly in the real library)
	idxByte := func(x *Exec, s []*Term, c *Term) Value {
		for i, b := range s {
			if x.c.Branch(x.c.st.Eq(b, c)) {
				return x.intConst(int64(i))
			}
		}
		return x.intConst(-1)
	}
	intrinsics["internal/bytealg.IndexByteString"] = func(x *Exec, a []Value) Value { return idxByte(x, a[0].(Str).b, a[1].(*Term)) }
	intrinsics["internal/bytealg.IndexByte"] = func(x *Exec, a []Value) Value { return idxByte(x, x.strOf(a[0]).b, a[1].(*Term)) }
	cnt := func(x *Exec, s []*Term, c *Term) Value {
		n := int64(0)
		for _, b := range s {
			if x.c.Branch(x.c.st.Eq(b, c)) {
				n++
			}
		}
		return x.intConst(n)
	}
	intrinsics["internal/bytealg.CountString"] = func(x *Exec, a []Value) Value { return cnt(x, a[0].(Str).b, a[1].(*Term)) }
	intrinsics["internal/bytealg.Count"] = func(x *Exec, a []Value) Value { return cnt(x, x.strOf(a[0]).b, a[1].(*Term)) }
	intrinsics["internal/bytealg.IndexString"] = func(x *Exec, a []Value) Value {
		return x.intConst(int64(x.strIndex(a[0].(Str), a[1].(Str), 0)))
	}
	intrinsics["internal/bytealg.Index"] = func(x *Exec, a []Value) Value {
		return x.intConst(int64(x.strIndex(x.strOf(a[0]), x.strOf(a[1]), 0)))
	}
	intrinsics["internal/bytealg.Equal"] = func(x *Exec, a []Value) Value { return x.eqVal(x.strOf(a[0]), x.strOf(a[1])) }
	intrinsics["internal/bytealg.Compare"] = func(x *Exec, a []Value) Value {
		p, q := x.strOf(a[0]), x.strOf(a[1])
		if x.c.Branch(x.eqVal(p, q)) {
			return x.intConst(0)
		}
		if x.c.Branch(x.strLess(p, q, false)) {
			return x.intConst(-1)
		}
		return x.intConst(1)
	}
	intrinsics["strings.Index"] = func(x *Exec, a []Value) Value { return x.intConst(int64(x.strIndex(a[0].(Str), a[1].(Str), 0))) }
	intrinsics["strings.Contains"] = func(x *Exec, a []Value) Value {
		return x.c.st.Bool(x.strIndex(a[0].(Str), a[1].(Str), 0) >= 0)
	}
	intrinsics["bytes.Equal"] = func(x *Exec, a []Value) Value { return x.eqVal(x.strOf(a[0]), x.strOf(a[1])) }
	intrinsics["strconv.Itoa"] = func(x *Exec, a []Value) Value { return Str{x.decimal(a[0].(*Term), false)} }
	intrinsics["errors.Is"] = func(x *Exec, a []Value) Value {
		e, _ := a[0].(Iface).v.(*ErrObj)
		t, _ := a[1].(Iface).v.(*ErrObj)
		if tt := a[1].(Iface).t; tt != nil && typeKey(tt) == "syscall.Errno" {
			// errors.Is(err, syscall.EXXX): the model's error kinds are the errno names
			want := ""
			if k, ok := a[1].(Iface).v.(*Term); ok && k.op == OpConst {
				want = map[uint64]string{2: "ENOENT", 5: "EIO", 17: "EEXIST", 20: "ENOTDIR", 21: "EISDIR", 22: "EINVAL", 39: "ENOTEMPTY"}[k.k]
			}
			if want == "" {
				x.engineErr("errors.Is: unmodelled errno")
			}
			for ; e != nil; e = e.wrap {
				if e.kind == want {
					return x.c.st.True
				}
			}
			return x.c.st.False
		}
		for e != nil {
			if e == t {
				return x.c.st.True
			}
			e = e.wrap
		}
		return x.c.st.Bool(a[0].(Iface).t == nil && a[1].(Iface).t == nil)
	}
	intrinsics["os.WriteFile"] = func(x *Exec, a []Value) Value {
		r := intrinsics["os.Create"](x, []Value{a[0]}).(Tuple)
		if r[1].(Iface).t != nil {
			return r[1]
		}
		w := intrinsics["(*os.File).Write"](x, []Value{r[0], a[1]}).(Tuple)
		return w[1]
	}
	intrinsics["os.RemoveAll"] = func(x *Exec, a []Value) Value {
		p := a[0].(Str)
		if e, f := x.fallible("remove", p); f {
			return e
		}
		n, par, _, ek := x.resolve(p)
		if ek != "" || par == nil {
			return nilErr
		}
		for i, e := range par.ents {
			if e.node == n {
				par.ents = append(par.ents[:i:i], par.ents[i+1:]...)
				break
			}
		}
		x.mutated("removeall", p)
		return nilErr
	}
	intrinsics["os.Lstat"] = func(x *Exec, a []Value) Value { return intrinsics["os.Stat"](x, a) }
	intrinsics["os.IsExist"] = func(x *Exec, a []Value) Value {
		ifc := a[0].(Iface)
		e, ok := ifc.v.(*ErrObj)
		return x.c.st.Bool(ifc.t != nil && ok && (e.kind == "EEXIST" || e.kind == "ENOTEMPTY"))
	}
	intrinsics["path/filepath.Base"] = func(x *Exec, a []Value) Value {
		p := a[0].(Str)
		if len(p.b) == 0 {
			return x.cstr(".")
		}
		comps, _ := x.splitPath(p)
		if len(comps) == 0 {
			return x.cstr("/")
		}
		return comps[len(comps)-1]
	}
	intrinsics["path/filepath.ToSlash"] = func(x *Exec, a []Value) Value { return a[0] }
	intrinsics["path/filepath.FromSlash"] = func(x *Exec, a []Value) Value { return a[0] }
	intrinsics["path/filepath.IsAbs"] = func(x *Exec, a []Value) Value {
		p := a[0].(Str)
		return x.c.st.Bool(len(p.b) > 0 && x.c.Branch(x.c.st.Eq(p.b[0], x.c.st.Const(8, '/'))))
	}
}

func init() {
	indexAny := func(x *Exec, s, chars Str) int {
		for i, b := range s.b {
			for _, c := range chars.b {
				if x.c.Branch(x.c.st.Eq(b, c)) {
					return i
				}
			}
		}
		return -1
	}
	intrinsics["strings.IndexAny"] = func(x *Exec, a []Value) Value { return x.intConst(int64(indexAny(x, a[0].(Str), a[1].(Str)))) }
	intrinsics["strings.ContainsAny"] = func(x *Exec, a []Value) Value {
		return x.c.st.Bool(indexAny(x, a[0].(Str), a[1].(Str)) >= 0)
	}
	intrinsics["strings.ContainsRune"] = func(x *Exec, a []Value) Value {
		r := a[1].(*Term)
		if r.op != OpConst || r.k >= 0x80 {
			x.engineErr("ContainsRune with symbolic or non-ASCII rune")
		}
		return x.c.st.Bool(indexAny(x, a[0].(Str), Str{[]*Term{x.c.st.Const(8, r.k)}}) >= 0)
	}
	intrinsics["strings.HasPrefix"] = func(x *Exec, a []Value) Value {
		s, p := a[0].(Str), a[1].(Str)
		if len(p.b) > len(s.b) {
			return x.c.st.False
		}
		return x.eqVal(Str{s.b[:len(p.b)]}, p)
	}
	intrinsics["strings.HasSuffix"] = func(x *Exec, a []Value) Value {
		s, p := a[0].(Str), a[1].(Str)
		if len(p.b) > len(s.b) {
			return x.c.st.False
		}
		return x.eqVal(Str{s.b[len(s.b)-len(p.b):]}, p)
	}
}
