package main

import (
	"crypto/sha256"
	"encoding/json"
	"flag"
	"fmt"
	"os"
	"os/exec"
	"path/filepath"
	"regexp"
	"runtime"
	"sort"
	"strings"
	"time"
)

func sortStrings(s []string) { sort.Strings(s) }

type nativeCase struct {
	Harness string                 `json:"harness"`
	Inputs  map[string]interface{} `json:"inputs"`
	Params  map[string]int         `json:"params"`
	Known   map[string]bool        `json:"known"`
	Scale   int                    `json:"scale,omitempty"`  // every symbolic byte string is repeated Scale times (short-read replays)
	PadTo   int                    `json:"pad_to,omitempty"` // every non-empty symbolic byte string is repeated up to exactly PadTo bytes
}

type nativeAssert struct {
	Msg string `json:"msg"`
	OK  bool   `json:"ok"`
}
type nativeResult struct {
	Harness string         `json:"harness"`
	Outcome string         `json:"outcome"`
	Panic   string         `json:"panic"`
	Asserts []nativeAssert `json:"asserts"`
	Notes   []string       `json:"notes"`
	Done    bool           `json:"done"`
}

func goEnv() []string {
	return append(os.Environ(), "GOFLAGS=-mod=mod", "GOPROXY=off", "GOSUMDB=off", "GOTOOLCHAIN=local", "NO_COLOR=1")
}

// runNative executes cases for one package through `go test -overlay` against the real code and the real OS.
// droppedHarnessFiles: virtual paths of harness files that do not compile against the current tree (set by Load).
var droppedHarnessFiles = map[string]bool{}

var harnessFuncRe = regexp.MustCompile(`(?m)^func (VP_[A-Za-z0-9_]+)\(\)`)

func runNative(repoDir, verDir, pkg string, cases []nativeCase) ([]nativeResult, error) {
	tmp, err := os.MkdirTemp("", "vpnative")
	if err != nil {
		return nil, err
	}
	defer os.RemoveAll(tmp)
	ov, err := overlayFor(repoDir, verDir, true)
	if err != nil {
		return nil, err
	}
	repl := map[string]string{}
	i := 0
	var funcs []string
	for virt, content := range ov {
		if droppedHarnessFiles[virt] || filepath.Base(virt) == "zz_map.go" {
			continue
		}
		if filepath.Dir(virt) == filepath.Join(repoDir, pkg) {
			for _, m := range harnessFuncRe.FindAllSubmatch(content, -1) {
				funcs = append(funcs, string(m[1]))
			}
		}
		real := filepath.Join(tmp, fmt.Sprintf("ov%d_%s", i, filepath.Base(virt)))
		i++
		if err := os.WriteFile(real, content, 0o644); err != nil {
			return nil, err
		}
		repl[virt] = real
	}
	pkgName := filepath.Base(pkg)
	sort.Strings(funcs)
	table := ""
	for _, f := range funcs {
		table += fmt.Sprintf("\t%q: %s,\n", f, f)
	}
	testSrc := fmt.Sprintf("package %s\n\nimport (\n\t\"testing\"\n\t\"%s/internal/zzvp\"\n)\n\nvar vpHarnesses = map[string]func(){\n%s}\n\nfunc TestVPReplay(t *testing.T) { zzvp.NativeMain(t, vpHarnesses) }\n", pkgName, repoMod, table)
	testReal := filepath.Join(tmp, "zz_replay_test.go")
	os.WriteFile(testReal, []byte(testSrc), 0o644)
	repl[filepath.Join(repoDir, pkg, "zz_replay_test.go")] = testReal
	ovJSON, _ := json.Marshal(map[string]interface{}{"Replace": repl})
	ovPath := filepath.Join(tmp, "overlay.json")
	os.WriteFile(ovPath, ovJSON, 0o644)
	casesPath := filepath.Join(tmp, "cases.json")
	cb, _ := json.Marshal(cases)
	os.WriteFile(casesPath, cb, 0o644)
	outPath := filepath.Join(tmp, "out.json")
	env := append(goEnv(), "VP_CASES="+casesPath, "VP_OUT="+outPath)
	if pkg == "cmd" {
		goit := filepath.Join(tmp, "goit")
		b := exec.Command("go", "build", "-o", goit, ".")
		b.Dir = repoDir
		b.Env = goEnv()
		if out, err := b.CombinedOutput(); err != nil {
			return nil, fmt.Errorf("building goit: %v\n%s", err, out)
		}
		env = append(env, "VP_GOIT="+goit)
		// instrumented binary for crash / fault replays: package os replaced by the counting shim zzos (scratch copies only)
		if instr, err := buildInstrumented(repoDir, verDir, tmp); err == nil {
			env = append(env, "VP_GOIT_INSTR="+instr)
		} else {
			fmt.Println("note: instrumented goit could not be built (crash/fault replays unavailable):", err)
		}
	}
	c := exec.Command("go", "test", "-vet=off", "-count=1", "-timeout", "20m", "-overlay", ovPath, "-run", "^TestVPReplay$", "./"+pkg)
	c.Dir = repoDir
	c.Env = env
	out, err := c.CombinedOutput()
	rb, rerr := os.ReadFile(outPath)
	if rerr != nil {
		return nil, fmt.Errorf("native run failed: %v\n%s", err, out)
	}
	var res []nativeResult
	if err := json.Unmarshal(rb, &res); err != nil {
		return nil, err
	}
	return res, nil
}

// ---------------------------------------------------------------------------

type KnownFinding struct {
	Property string                 `json:"property"`
	ID       string                 `json:"id"`
	Harness  string                 `json:"harness"` // pkg:Func
	What     string                 `json:"what"`
	Assert   string                 `json:"assert"` // message of the assertion that fails ("panic" for crashes)
	Inputs   map[string]interface{} `json:"inputs"`
	Params   map[string]int         `json:"params"`
}

type KnownFile struct {
	Findings []KnownFinding `json:"known_findings"`
	Fixed    []string       `json:"fixed"`
}

func loadKnown(verDir string) KnownFile {
	var k KnownFile
	b, err := os.ReadFile(filepath.Join(verDir, "known_findings.json"))
	if err == nil {
		json.Unmarshal(b, &k)
	}
	return k
}

type Evidence struct {
	PropertyID  string                 `json:"property_id"`
	Tier        string                 `json:"tier"`
	Seed        int                    `json:"seed"`
	Level       string                 `json:"level"`
	Coverage    map[string]interface{} `json:"coverage"`
	Assumptions []string               `json:"assumptions"`
	WallS       float64                `json:"wall_s"`
	Violations  int                    `json:"violations"`
}

func cmdCheck(args []string) int {
	fs := flag.NewFlagSet("check", flag.ExitOnError)
	prop := fs.String("property", "", "property id")
	tier := fs.String("tier", "quick", "quick|thorough")
	workers := fs.Int("j", runtime.NumCPU(), "workers")
	repoDir := fs.String("repo", "/repo", "repository")
	verDir := fs.String("verif", "/verif", "verif dir")
	noNative := fs.Bool("no-native", false, "skip native differential validation (development only)")
	only := fs.String("only", "", "run only harnesses whose name contains this (development only; evidence not written)")
	fs.Parse(args)
	if t := os.Getenv("VERIF_TIER"); t != "" && !isFlagSet(fs, "tier") {
		*tier = t
	}
	seed := 0
	fmt.Sscanf(os.Getenv("VERIF_SEED"), "%d", &seed)
	t0 := time.Now()
	pd, ok := registry[*prop]
	if !ok {
		fmt.Printf("no check registered for %s\n", *prop)
		return 2
	}
	ld, err := Load(*repoDir, *verDir)
	if err != nil {
		fmt.Println("LOAD ERROR:", err)
		return 2
	}
	loadS := time.Since(t0).Seconds()
	for _, d := range ld.dropped {
		droppedHarnessFiles[d] = true
		fmt.Printf("note: harness file %s does not compile against this tree and was left out (its harnesses are not applicable to it)\n", d)
	}
	known := loadKnown(*verDir)
	cfg := defaultCfg(*tier)

	// 1. known findings: replay each listed witness on the real build; only those that still fail exclude their region
	knownHit := []string{}
	for _, kf := range known.Findings {
		if kf.Property != *prop {
			continue
		}
		parts := strings.SplitN(kf.Harness, ":", 2)
		res, err := runNative(*repoDir, *verDir, parts[0], []nativeCase{{Harness: parts[1], Inputs: kf.Inputs, Params: kf.Params, Known: map[string]bool{}}})
		still := false
		if err == nil && len(res) == 1 {
			if res[0].Outcome == "panic" && kf.Assert == "panic" {
				still = true
			}
			for _, a := range res[0].Asserts {
				if !a.OK && a.Msg == kf.Assert {
					still = true
				}
			}
		}
		if still {
			fmt.Printf("KNOWN-FINDING: property=%s %s: %s\n", *prop, kf.ID, kf.What)
			cfg.Known[kf.ID] = true
			knownHit = append(knownHit, kf.ID)
		} else {
			fmt.Printf("note: listed finding %s no longer reproduces; its region is checked like any other\n", kf.ID)
		}
	}

	// 2. symbolic exploration of every harness of the property
	var results []*HarnessResult
	totalBudget := pd.QuickBudget
	if *tier == "thorough" {
		totalBudget = pd.ThoroughBudget
	}
	for _, h := range pd.Harnesses {
		if *only != "" && !strings.Contains(h.Func, *only) {
			continue
		}
		if h.ThoroughOnly && *tier != "thorough" {
			continue
		}
		spec := HarnessSpec{Pkg: h.Pkg, Func: h.Func, Params: map[string]int{}}
		for k, v := range h.Quick {
			spec.Params[k] = v
		}
		if *tier == "thorough" {
			for k, v := range h.Thorough {
				spec.Params[k] = v
			}
		}
		budget := time.Duration(float64(totalBudget) * h.Share)
		r := RunHarness(ld, spec, cfg, *workers, budget)
		printResult(r)
		results = append(results, r)
	}

	// 3. confirm every counterexample against the real build before reporting it
	exit := 0
	nviol := 0
	spurious := 0
	var violSamples []interface{}
	replayDir := filepath.Join(*verDir, "replays")
	for _, r := range results {
		for _, v := range r.Violations {
			if v.Hang && *prop != "C18" {
				// an exceeded unwinding bound is already counted (the run is not exhaustive); non-termination is C18's claim
				continue
			}
			nc := nativeCase{Harness: r.Spec.Func, Inputs: v.Inputs, Params: r.Spec.Params, Known: cfg.Known}
			for _, n := range v.Notes {
				if strings.HasPrefix(n, "short read") {
					// the counterexample relies on a short read: real inflaters only do that beyond one 32 KiB window,
					// so the same inputs are replayed with every byte string repeated until the payload exceeds it
					nc.Scale = 20000
				}
			}
			var sweep []nativeCase
			for _, n := range v.Notes {
				if strings.HasPrefix(n, "eof-split") {
					// the counterexample relies on io.EOF arriving separately from the last bytes: real inflaters do that only
					// when the stream ends exactly at a window boundary, so the replay sweeps the payload length across one
					for l := 32768 - 40; l <= 32768; l++ {
						c := nc
						c.Scale, c.PadTo = 0, l
						sweep = append(sweep, c)
					}
				}
			}
			if len(sweep) > 0 {
				if sres, serr := runNative(*repoDir, *verDir, r.Spec.Pkg, sweep); serr == nil {
					for i, sr := range sres {
						for _, a := range sr.Asserts {
							if !a.OK && a.Msg == v.Msg {
								nc = sweep[i]
							}
						}
					}
				}
			}
			nres, err := runNative(*repoDir, *verDir, r.Spec.Pkg, []nativeCase{nc})
			confirmed := false
			detail := ""
			if err != nil {
				detail = "native replay could not run: " + err.Error()
			} else if len(nres) == 1 {
				if strings.HasPrefix(v.Msg, "panic:") && nres[0].Outcome == "panic" && !strings.Contains(nres[0].Panic, "hang:") {
					confirmed = true
					detail = nres[0].Panic
				}
				if v.Hang && nres[0].Outcome == "panic" && strings.Contains(nres[0].Panic, "hang:") {
					// the real binary did not finish within the time limit on the same inputs
					confirmed = true
					detail = nres[0].Panic
				}
				for _, a := range nres[0].Asserts {
					if !a.OK && a.Msg == v.Msg {
						confirmed = true
					}
				}
				if !confirmed {
					detail = fmt.Sprintf("native outcome=%s asserts=%v", nres[0].Outcome, nres[0].Asserts)
				}
			}
			if confirmed {
				os.MkdirAll(replayDir, 0o755)
				body, _ := json.MarshalIndent(map[string]interface{}{"property": *prop, "harness": r.Spec.Pkg + ":" + r.Spec.Func, "assert": v.Msg,
					"inputs": v.Inputs, "params": r.Spec.Params, "known": cfg.Known, "native": detail, "notes": v.Notes, "scale": nc.Scale, "pad_to": nc.PadTo}, "", " ")
				dig := fmt.Sprintf("%x", sha256.Sum256(body))[:12]
				path := filepath.Join(replayDir, fmt.Sprintf("%s-%s.json", *prop, dig))
				os.WriteFile(path, body, 0o644)
				fmt.Printf("VIOLATION property=%s replay=%s\n", *prop, path)
				fmt.Printf("  harness=%s assert=%q inputs=%s\n", r.Spec.Name(), v.Msg, showInputs(v.Inputs))
				exit = 1
				nviol++
				violSamples = append(violSamples, map[string]interface{}{"harness": r.Spec.Name(), "assert": v.Msg, "inputs": showInputs(v.Inputs)})
			} else {
				spurious++
				fmt.Printf("SPURIOUS (model artefact, not reported): harness=%s assert=%q inputs=%s :: %s\n", r.Spec.Name(), v.Msg, showInputs(v.Inputs), detail)
			}
		}
	}

	// 4. differential validation of the executor: sampled completed paths re-run natively, assertion by assertion
	validated, mismatches := 0, 0
	var mismatchSamples []string
	if !*noNative {
		byPkg := map[string][]nativeCase{}
		expect := map[string][]pathModel{}
		for _, r := range results {
			if r.Spec.Params["freeDigest"] == 1 {
				// digests are free solver variables on these paths: the native run (real SHA-1) need not follow the same path
				continue
			}
			n := 0
			for _, pm := range r.PathModels {
				if n >= 12 {
					break
				}
				n++
				byPkg[r.Spec.Pkg] = append(byPkg[r.Spec.Pkg], nativeCase{Harness: r.Spec.Func, Inputs: pm.Inputs, Params: r.Spec.Params, Known: cfg.Known})
				expect[r.Spec.Pkg] = append(expect[r.Spec.Pkg], pm)
			}
		}
		for pkg, cases := range byPkg {
			nres, err := runNative(*repoDir, *verDir, pkg, cases)
			if err != nil {
				fmt.Println("note: native differential run failed:", err)
				continue
			}
			for i, nr := range nres {
				pm := expect[pkg][i]
				// assertions marked [model-only] have no native counterpart (e.g. the instant of a controlled clock)
				var ea []string
				var er []bool
				for j, m := range pm.Asserts {
					if !strings.HasSuffix(m, "[model-only]") {
						ea = append(ea, m)
						er = append(er, pm.Results[j])
					}
				}
				pm.Asserts, pm.Results = ea, er
				okc := nr.Outcome == "ok" && len(nr.Asserts) == len(pm.Asserts)
				if okc {
					for j := range pm.Asserts {
						if nr.Asserts[j].Msg != pm.Asserts[j] || nr.Asserts[j].OK != pm.Results[j] {
							okc = false
						}
					}
				}
				if okc {
					validated++
				} else {
					mismatches++
					if len(mismatchSamples) < 5 {
						mismatchSamples = append(mismatchSamples, fmt.Sprintf("%s inputs=%s engine=%v/%v native=%s %v %s", cases[i].Harness, showInputs(cases[i].Inputs), pm.Asserts, pm.Results, nr.Outcome, nr.Asserts, nr.Panic))
					}
				}
			}
		}
		for _, m := range mismatchSamples {
			fmt.Println("ENGINE-MISMATCH:", m)
		}
	}

	// 5. evidence
	var paths, obligations, discharged, undis, unproved, unwind, engErr, queries, reached, pruned, crossN, crossBrN, crossDis, crossUnk int
	var steps int64
	var solverS float64
	funcs := map[string]int64{}
	var samples []interface{}
	var harnessRows []interface{}
	complete := true
	for _, r := range results {
		s := r.Stats
		paths += s.Paths
		pruned += s.Pruned
		steps += s.Steps
		obligations += s.Obligations
		discharged += s.Discharged
		undis += s.Undischarged
		unproved += s.Unproved
		unwind += s.UnwindFail
		engErr += s.EngineErrors
		queries += r.Queries
		reached += s.ReachedEnd
		crossN += s.CrossChecked
		crossBrN += s.CrossPruned
		crossDis += s.CrossDisagree
		crossUnk += s.CrossUnknown
		solverS += r.SolverTime
		for k, v := range s.Funcs {
			funcs[k] += v
		}
		if !r.Complete || s.Undischarged > 0 || s.UnwindFail > 0 || s.EngineErrors > 0 || s.Unproved > 0 || s.CrossDisagree > 0 {
			complete = false
		}
		for i, ps := range s.PathSamples {
			if i < 2 {
				samples = append(samples, map[string]interface{}{"harness": r.Spec.Name(), "inputs": showInputs(ps.Inputs), "outcome": ps.Outcome, "asserts": ps.Asserts, "pc_conjuncts": ps.PCSize})
			}
		}
		harnessRows = append(harnessRows, map[string]interface{}{"harness": r.Spec.Name(), "bounds": r.Spec.Params, "paths": s.Paths, "pruned_infeasible": s.Pruned,
			"reached_final_assertion": s.ReachedEnd, "obligations": s.Obligations, "discharged": s.Discharged, "undischarged": s.Undischarged,
			"unwinding_failures": s.UnwindFail, "engine_errors": s.EngineErrors, "error_samples": s.ErrSamples, "queries": r.Queries, "solver_s": round1(r.SolverTime), "wall_s": round1(r.Wall),
			"complete_within_bounds": r.Complete, "asserts": s.AssertsByMsg})
	}
	samples = append(samples, violSamples...)
	if len(samples) == 0 {
		samples = append(samples, "no path completed")
	}
	if paths == 0 {
		paths = 0
	}
	ev := Evidence{PropertyID: *prop, Tier: *tier, Seed: seed, Level: "model_checking", WallS: round1(time.Since(t0).Seconds()), Violations: nviol}
	ev.Coverage = map[string]interface{}{
		"states": paths, "transitions": steps, "traces_validated_against_impl": validated, "samples": samples,
		"obligations": obligations, "discharged": discharged, "undischarged": undis, "unproved_paths": unproved,
		"unwinding_failures": unwind, "engine_errors": engErr, "spurious_models": spurious, "native_mismatches": mismatches, "mismatch_samples": mismatchSamples,
		"solver_queries": queries, "solver_time_s": round1(solverS), "solver": solverKind() + " (-in, incremental QF_BV over push/pop; z3-new = z3 5.1.0, z3 = 4.8.12)",
		"cross_solver":                   map[string]interface{}{"solvers": cfg.Cross, "assertion_vcs_rechecked": crossN, "pruned_branch_sides_rechecked": crossBrN, "disagreements": crossDis, "unknown": crossUnk},
		"paths_reaching_final_assertion": reached, "paths_pruned_infeasible": pruned,
		"functions_encoded": topFuncs(funcs, 0), "harnesses": harnessRows, "known_findings_hit": knownHit,
		"exhaustive":                   complete && nviol == 0,
		"explanation":                  "states = feasible symbolic paths completed; transitions = SSA instructions of /repo interpreted; every obligation is one (check-sat) of pc ∧ ¬assert",
		"harness_files_not_applicable": ld.dropped,
		"repo_head":                    ld.gitHead, "repo_diff_sha256_16": ld.diffSum, "load_s": round1(loadS),
	}
	ev.Assumptions = pd.Assumptions
	if *only == "" {
		os.MkdirAll(filepath.Join(*verDir, "evidence"), 0o755)
		b, _ := json.MarshalIndent(ev, "", " ")
		os.WriteFile(filepath.Join(*verDir, "evidence", *prop+".json"), b, 0o644)
	}
	fmt.Printf("property %s tier=%s: paths=%d obligations=%d discharged=%d undischarged=%d violations=%d spurious=%d validated=%d mismatches=%d exhaustive=%v wall=%.1fs\n",
		*prop, *tier, paths, obligations, discharged, undis, nviol, spurious, validated, mismatches, complete && nviol == 0, time.Since(t0).Seconds())
	if engErr > 0 && paths == engErr {
		fmt.Println("TOOL ERROR: every path ended in an engine error")
		return 2
	}
	return exit
}

func round1(f float64) float64 { return float64(int(f*10+0.5)) / 10 }

func isFlagSet(fs *flag.FlagSet, name string) bool {
	set := false
	fs.Visit(func(f *flag.Flag) {
		if f.Name == name {
			set = true
		}
	})
	return set
}

// cmdReplay re-runs a recorded counterexample against the real build (go test -overlay / real goit binary).
func cmdReplay(args []string) int {
	if len(args) < 1 {
		fmt.Println("usage: goitsym replay <file>")
		return 2
	}
	b, err := os.ReadFile(args[0])
	if err != nil {
		fmt.Println(err)
		return 2
	}
	var rec struct {
		Property string                 `json:"property"`
		Harness  string                 `json:"harness"`
		Assert   string                 `json:"assert"`
		Inputs   map[string]interface{} `json:"inputs"`
		Params   map[string]int         `json:"params"`
		Known    map[string]bool        `json:"known"`
		Scale    int                    `json:"scale"`
		PadTo    int                    `json:"pad_to"`
	}
	if err := json.Unmarshal(b, &rec); err != nil {
		fmt.Println(err)
		return 2
	}
	parts := strings.SplitN(rec.Harness, ":", 2)
	res, err := runNative("/repo", "/verif", parts[0], []nativeCase{{Harness: parts[1], Inputs: rec.Inputs, Params: rec.Params, Known: rec.Known, Scale: rec.Scale, PadTo: rec.PadTo}})
	if err != nil || len(res) != 1 {
		fmt.Println("replay could not run:", err)
		return 2
	}
	out, _ := json.MarshalIndent(res[0], "", " ")
	fmt.Println(string(out))
	failed := strings.HasPrefix(rec.Assert, "panic:") && res[0].Outcome == "panic"
	for _, a := range res[0].Asserts {
		if !a.OK && a.Msg == rec.Assert {
			failed = true
		}
	}
	if failed {
		fmt.Printf("VIOLATION property=%s replay=%s\n", rec.Property, args[0])
		return 1
	}
	fmt.Println("the recorded counterexample does not fail on the current tree")
	return 0
}

var osImportRe = regexp.MustCompile(`(?m)^(\s*)(import\s+)?"os"\s*$`)

// buildInstrumented builds goit with every `import "os"` of module files redirected to internal/zzos, through an overlay.
func buildInstrumented(repoDir, verDir, tmp string) (string, error) {
	repl := map[string]string{}
	shim, err := os.ReadFile(filepath.Join(verDir, "harness", "zzos_native", "zzos.go"))
	if err != nil {
		return "", err
	}
	shimPath := filepath.Join(tmp, "zzos.go")
	os.WriteFile(shimPath, shim, 0o644)
	repl[filepath.Join(repoDir, "internal", "zzos", "zzos.go")] = shimPath
	n := 0
	err = filepath.Walk(repoDir, func(p string, info os.FileInfo, err error) error {
		if err != nil {
			return err
		}
		if info.IsDir() {
			if info.Name() == ".git" || info.Name() == "testdata" {
				return filepath.SkipDir
			}
			return nil
		}
		if !strings.HasSuffix(p, ".go") || strings.HasSuffix(p, "_test.go") {
			return nil
		}
		b, err := os.ReadFile(p)
		if err != nil {
			return err
		}
		if !osImportRe.Match(b) {
			return nil
		}
		nb := osImportRe.ReplaceAll(b, []byte(`${1}${2}os "`+repoMod+`/internal/zzos"`))
		real := filepath.Join(tmp, fmt.Sprintf("instr%d_%s", n, filepath.Base(p)))
		n++
		os.WriteFile(real, nb, 0o644)
		repl[p] = real
		return nil
	})
	if err != nil {
		return "", err
	}
	ovJSON, _ := json.Marshal(map[string]interface{}{"Replace": repl})
	ovPath := filepath.Join(tmp, "instr_overlay.json")
	os.WriteFile(ovPath, ovJSON, 0o644)
	out := filepath.Join(tmp, "goit_instr")
	c := exec.Command("go", "build", "-overlay", ovPath, "-o", out, ".")
	c.Dir = repoDir
	c.Env = goEnv()
	if b, err := c.CombinedOutput(); err != nil {
		return "", fmt.Errorf("%v: %s", err, b)
	}
	return out, nil
}
