package main

import "sort"

func sortStrings(s []string) { sort.Strings(s) }

func cmdCheck(args []string) int { return 2 }
