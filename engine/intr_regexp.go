package main

// regexp: patterns are compiled by Go's own regexp/syntax; matching is a symbolic Pike-NFA simulation.

import (
	"regexp"
	"regexp/syntax"
	"strings"
)

type RegexpObj struct {
	native *regexp.Regexp // for patterns without symbolic bytes: concrete subjects are matched by the real library
	prog   *syntax.Prog
	src    string
	holes  []*Term // symbolic literal bytes of the pattern, addressed by private-use runes U+E000+i
	clos   map[uint32][]closEnt
}

type closEnt struct {
	pc    uint32
	empty syntax.EmptyOp
}

const holeBase = 0xE000

const regexMeta = `\.+*?()|[]{}^$`

func init() {
	intrinsics["regexp.MustCompile"] = func(x *Exec, a []Value) Value {
		pat := a[0].(Str)
		st := x.c.st
		var sb strings.Builder
		var holes []*Term
		for _, b := range pat.b {
			if b.op == OpConst {
				if b.k >= 0x80 {
					// pass through raw byte (patterns are UTF-8; concrete exemplars only)
				}
				sb.WriteByte(byte(b.k))
				continue
			}
			// symbolic pattern byte: is it one specific metacharacter, or a literal?
			pinned := false
			for i := 0; i < len(regexMeta); i++ {
				m := regexMeta[i]
				if x.c.Branch(st.Eq(b, st.Const(8, uint64(m)))) {
					sb.WriteByte(m)
					pinned = true
					break
				}
			}
			if pinned {
				continue
			}
			if x.c.Branch(st.Cmp(OpUle, st.Const(8, 0x80), b)) {
				x.engineErr("symbolic non-ASCII byte in regexp pattern")
			}
			sb.WriteRune(rune(holeBase + len(holes)))
			holes = append(holes, b)
		}
		src := sb.String()
		re, err := syntax.Parse(src, syntax.Perl)
		if err != nil {
			x.gopanic("regexp: Compile(`%s`): %v", pat.show(), err)
		}
		prog, err := syntax.Compile(re.Simplify())
		if err != nil {
			x.gopanic("regexp: Compile(`%s`): %v", pat.show(), err)
		}
		ro := &RegexpObj{prog: prog, src: src, holes: holes, clos: map[uint32][]closEnt{}}
		if len(holes) == 0 {
			ro.native, _ = regexp.Compile(src)
		}
		return ro
	}
	intrinsics["(*regexp.Regexp).MatchString"] = func(x *Exec, a []Value) Value {
		return x.reMatch(a[0].(*RegexpObj), a[1].(Str).b)
	}
	intrinsics["(*regexp.Regexp).Match"] = func(x *Exec, a []Value) Value {
		return x.reMatch(a[0].(*RegexpObj), x.strOf(a[1]).b)
	}
}

// closure: pcs of consuming/match instructions reachable by epsilon moves, with the empty-width conditions needed.
func (r *RegexpObj) closure(pc uint32) []closEnt {
	if c, ok := r.clos[pc]; ok {
		return c
	}
	var out []closEnt
	seen := map[closEnt]bool{}
	var walk func(pc uint32, e syntax.EmptyOp)
	walk = func(pc uint32, e syntax.EmptyOp) {
		k := closEnt{pc, e}
		if seen[k] {
			return
		}
		seen[k] = true
		in := &r.prog.Inst[pc]
		switch in.Op {
		case syntax.InstAlt, syntax.InstAltMatch:
			walk(in.Out, e)
			walk(in.Arg, e)
		case syntax.InstNop, syntax.InstCapture:
			walk(in.Out, e)
		case syntax.InstEmptyWidth:
			walk(in.Out, e|syntax.EmptyOp(in.Arg))
		case syntax.InstFail:
		default:
			out = append(out, k)
		}
	}
	walk(pc, 0)
	r.clos[pc] = out
	return out
}

func (x *Exec) isWordByte(b *Term) *Term {
	st := x.c.st
	rng := func(lo, hi byte) *Term {
		return st.And(st.Cmp(OpUle, st.Const(8, uint64(lo)), b), st.Cmp(OpUle, b, st.Const(8, uint64(hi))))
	}
	return st.OrN(rng('a', 'z'), rng('A', 'Z'), rng('0', '9'), st.Eq(b, st.Const(8, '_')))
}

func (x *Exec) emptyCond(e syntax.EmptyOp, s []*Term, pos int) *Term {
	st := x.c.st
	r := st.True
	nl := st.Const(8, '\n')
	if e&syntax.EmptyBeginText != 0 && pos != 0 {
		return st.False
	}
	if e&syntax.EmptyEndText != 0 && pos != len(s) {
		return st.False
	}
	if e&syntax.EmptyBeginLine != 0 && pos != 0 {
		r = st.And(r, st.Eq(s[pos-1], nl))
	}
	if e&syntax.EmptyEndLine != 0 && pos != len(s) {
		r = st.And(r, st.Eq(s[pos], nl))
	}
	if e&(syntax.EmptyWordBoundary|syntax.EmptyNoWordBoundary) != 0 {
		before, after := st.False, st.False
		if pos > 0 {
			before = x.isWordByte(s[pos-1])
		}
		if pos < len(s) {
			after = x.isWordByte(s[pos])
		}
		wb := st.Not(st.Eq(before, after))
		if e&syntax.EmptyWordBoundary != 0 {
			r = st.And(r, wb)
		}
		if e&syntax.EmptyNoWordBoundary != 0 {
			r = st.And(r, st.Not(wb))
		}
	}
	return r
}

// runeCond: Bool term "instruction in accepts byte b".
func (x *Exec) runeCond(r *RegexpObj, in *syntax.Inst, b *Term) *Term {
	st := x.c.st
	if b.op == OpConst {
		if b.k < 0x80 {
			if in.MatchRune(rune(b.k)) {
				return st.True
			}
			// might still equal a symbolic literal of the pattern
		} else {
			return st.Bool(in.MatchRune(0xFFFD))
		}
	}
	if n, ok := x.hexOf[b]; ok {
		// b is the lower-case hex digit of nibble n: decide per nibble value
		all, none := true, true
		res := st.False
		for v := 0; v < 16; v++ {
			if in.MatchRune(rune("0123456789abcdef"[v])) {
				none = false
				res = st.Or(res, st.Eq(n, st.Const(n.w, uint64(v))))
			} else {
				all = false
			}
		}
		if all {
			return st.True
		}
		if none && len(r.holes) == 0 {
			return st.False
		}
		if len(r.holes) == 0 {
			return res
		}
	}
	res := st.False
	// ASCII table as ranges
	v := 0
	for v < 128 {
		if !in.MatchRune(rune(v)) {
			v++
			continue
		}
		lo := v
		for v < 128 && in.MatchRune(rune(v)) {
			v++
		}
		hi := v - 1
		if lo == hi {
			res = st.Or(res, st.Eq(b, st.Const(8, uint64(lo))))
		} else {
			res = st.Or(res, st.And(st.Cmp(OpUle, st.Const(8, uint64(lo)), b), st.Cmp(OpUle, b, st.Const(8, uint64(hi)))))
		}
	}
	if in.MatchRune(0xFFFD) {
		res = st.Or(res, st.Cmp(OpUle, st.Const(8, 0x80), b))
	}
	// symbolic literals of the pattern
	for i, h := range r.holes {
		hr := rune(holeBase + i)
		if in.MatchRune(hr) {
			if in.MatchRune(hr+0x700) && in.MatchRune(0xFFFD) {
				// a class that contains the whole private-use area (e.g. negated class or '.'): already covered above,
				// but a literal hole excluded from a negated class cannot be expressed
				continue
			}
			res = st.Or(res, st.Eq(b, h))
		} else if in.MatchRune(0xFFFD) && in.Op != syntax.InstRune1 {
			x.engineErr("regexp: negated class excluding a symbolic literal is not modelled")
		}
	}
	return res
}

func (x *Exec) reMatch(r *RegexpObj, s []*Term) *Term {
	st := x.c.st
	if r.native != nil {
		conc := true
		raw := make([]byte, len(s))
		for i, t := range s {
			if t.op != OpConst {
				conc = false
				break
			}
			raw[i] = byte(t.k)
		}
		if conc {
			return st.Bool(r.native.Match(raw))
		}
	}
	n := len(s)
	matched := st.False
	cur := map[uint32]*Term{}
	order := []uint32{}
	add := func(m map[uint32]*Term, ord *[]uint32, pc uint32, cond *Term, pos int) {
		if cond.IsFalse() {
			return
		}
		for _, ce := range r.closure(pc) {
			c := st.And(cond, x.emptyCond(ce.empty, s, pos))
			if c.IsFalse() {
				continue
			}
			if r.prog.Inst[ce.pc].Op == syntax.InstMatch {
				matched = st.Or(matched, c)
				continue
			}
			if old, ok := m[ce.pc]; ok {
				m[ce.pc] = st.Or(old, c)
			} else {
				m[ce.pc] = c
				*ord = append(*ord, ce.pc)
			}
		}
	}
	for pos := 0; pos <= n; pos++ {
		// unanchored search: a new thread may start at every position
		add(cur, &order, uint32(r.prog.Start), st.True, pos)
		if matched.IsTrue() || pos == n {
			break
		}
		next := map[uint32]*Term{}
		var nord []uint32
		b := s[pos]
		for _, pc := range order {
			in := &r.prog.Inst[pc]
			c := st.And(cur[pc], x.runeCond(r, in, b))
			add(next, &nord, in.Out, c, pos+1)
		}
		cur, order = next, nord
	}
	return matched
}

func init() {
	intrinsics["regexp.QuoteMeta"] = func(x *Exec, a []Value) Value {
		s := a[0].(Str)
		st := x.c.st
		var out []*Term
		for _, b := range s.b {
			special := st.False
			for i := 0; i < len(regexMeta); i++ {
				special = st.Or(special, st.Eq(b, st.Const(8, uint64(regexMeta[i]))))
			}
			if x.c.Branch(special) {
				out = append(out, st.Const(8, '\\'))
			}
			out = append(out, b)
		}
		return Str{out}
	}
}

// ---- submatches ----
// Find* are decided by a leftmost-first backtracking run of the compiled program in which every rune test on a symbolic
// byte is a branch of the path (case split): capture positions are then concrete on each path (lengths are concrete).

func (x *Exec) reFind(r *RegexpObj, s []*Term) []int {
	if r.native != nil {
		if raw, ok := concBytes(s); ok {
			return r.native.FindSubmatchIndex(raw)
		}
	}
	ncap := r.prog.NumCap
	if ncap < 2 {
		ncap = 2
	}
	for start := 0; start <= len(s); start++ {
		caps := make([]int, ncap)
		for i := range caps {
			caps[i] = -1
		}
		visited := map[[2]int]bool{}
		caps[0] = start
		if x.reBack(r, s, uint32(r.prog.Start), start, caps, visited, 0) {
			return caps
		}
	}
	return nil
}

func concBytes(s []*Term) ([]byte, bool) {
	raw := make([]byte, len(s))
	for i, t := range s {
		if t.op != OpConst {
			return nil, false
		}
		raw[i] = byte(t.k)
	}
	return raw, true
}

func (x *Exec) reBack(r *RegexpObj, s []*Term, pc uint32, pos int, caps []int, visited map[[2]int]bool, depth int) bool {
	if depth > 4000 {
		x.engineErr("regexp: backtracking depth exceeded")
	}
	k := [2]int{int(pc), pos}
	if visited[k] {
		return false
	}
	visited[k] = true
	in := &r.prog.Inst[pc]
	switch in.Op {
	case syntax.InstFail:
		return false
	case syntax.InstAlt, syntax.InstAltMatch:
		if x.reBack(r, s, in.Out, pos, caps, visited, depth+1) {
			return true
		}
		return x.reBack(r, s, in.Arg, pos, caps, visited, depth+1)
	case syntax.InstNop:
		return x.reBack(r, s, in.Out, pos, caps, visited, depth+1)
	case syntax.InstCapture:
		if int(in.Arg) < len(caps) {
			old := caps[in.Arg]
			caps[in.Arg] = pos
			if x.reBack(r, s, in.Out, pos, caps, visited, depth+1) {
				return true
			}
			caps[in.Arg] = old
			return false
		}
		return x.reBack(r, s, in.Out, pos, caps, visited, depth+1)
	case syntax.InstEmptyWidth:
		if !x.c.Branch(x.emptyCond(syntax.EmptyOp(in.Arg), s, pos)) {
			return false
		}
		return x.reBack(r, s, in.Out, pos, caps, visited, depth+1)
	case syntax.InstMatch:
		caps[1] = pos
		return true
	default: // rune instructions
		if pos >= len(s) {
			return false
		}
		if !x.c.Branch(x.runeCond(r, in, s[pos])) {
			return false
		}
		return x.reBack(r, s, in.Out, pos+1, caps, visited, depth+1)
	}
}

func (x *Exec) subStrs(s []*Term, caps []int) Value {
	if caps == nil {
		return Slice{}
	}
	out := make([]Value, len(caps)/2)
	for i := range out {
		if caps[2*i] >= 0 && caps[2*i+1] >= 0 {
			out[i] = Str{s[caps[2*i]:caps[2*i+1]]}
		} else {
			out[i] = Str{}
		}
	}
	return Slice{a: out}
}

func (x *Exec) intSlice(v []int) Value {
	if v == nil {
		return Slice{}
	}
	out := make([]Value, len(v))
	for i, n := range v {
		out[i] = x.intConst(int64(n))
	}
	return Slice{a: out}
}

func init() {
	intrinsics["(*regexp.Regexp).FindStringSubmatch"] = func(x *Exec, a []Value) Value {
		s := a[1].(Str).b
		return x.subStrs(s, x.reFind(a[0].(*RegexpObj), s))
	}
	intrinsics["(*regexp.Regexp).FindStringSubmatchIndex"] = func(x *Exec, a []Value) Value {
		return x.intSlice(x.reFind(a[0].(*RegexpObj), a[1].(Str).b))
	}
	intrinsics["(*regexp.Regexp).FindStringIndex"] = func(x *Exec, a []Value) Value {
		c := x.reFind(a[0].(*RegexpObj), a[1].(Str).b)
		if c == nil {
			return Slice{}
		}
		return x.intSlice(c[:2])
	}
	intrinsics["(*regexp.Regexp).FindString"] = func(x *Exec, a []Value) Value {
		s := a[1].(Str).b
		c := x.reFind(a[0].(*RegexpObj), s)
		if c == nil {
			return Str{}
		}
		return Str{s[c[0]:c[1]]}
	}
	intrinsics["(*regexp.Regexp).FindSubmatch"] = func(x *Exec, a []Value) Value {
		s := x.strOf(a[1]).b
		c := x.reFind(a[0].(*RegexpObj), s)
		if c == nil {
			return Slice{}
		}
		out := make([]Value, len(c)/2)
		for i := range out {
			if c[2*i] >= 0 && c[2*i+1] >= 0 {
				out[i] = x.bytesSlice(s[c[2*i]:c[2*i+1]])
			} else {
				out[i] = Slice{}
			}
		}
		return Slice{a: out}
	}
	intrinsics["(*regexp.Regexp).Find"] = func(x *Exec, a []Value) Value {
		s := x.strOf(a[1]).b
		c := x.reFind(a[0].(*RegexpObj), s)
		if c == nil {
			return Slice{}
		}
		return x.bytesSlice(s[c[0]:c[1]])
	}
	intrinsics["(*regexp.Regexp).NumSubexp"] = func(x *Exec, a []Value) Value {
		return x.intConst(int64(a[0].(*RegexpObj).prog.NumCap/2 - 1))
	}
	intrinsics["(*regexp.Regexp).String"] = func(x *Exec, a []Value) Value {
		r := a[0].(*RegexpObj)
		if len(r.holes) > 0 {
			x.engineErr("regexp: String of a pattern with symbolic bytes")
		}
		return x.cstr(r.src)
	}
	// methods decided by the real library when pattern and subject are concrete
	intrinsics["(*regexp.Regexp).ReplaceAllString"] = func(x *Exec, a []Value) Value {
		r := a[0].(*RegexpObj)
		s, ok1 := a[1].(Str).concrete()
		rep, ok2 := a[2].(Str).concrete()
		if r.native == nil || !ok1 || !ok2 {
			x.engineErr("regexp: ReplaceAllString on symbolic data is not modelled")
		}
		return x.cstr2(r.native.ReplaceAllString(s, rep))
	}
	intrinsics["(*regexp.Regexp).FindAllString"] = func(x *Exec, a []Value) Value {
		r := a[0].(*RegexpObj)
		s, ok1 := a[1].(Str).concrete()
		n := a[2].(*Term)
		if r.native == nil || !ok1 || n.op != OpConst {
			x.engineErr("regexp: FindAllString on symbolic data is not modelled")
		}
		res := r.native.FindAllString(s, int(sval(n.w, n.k)))
		if res == nil {
			return Slice{}
		}
		out := make([]Value, len(res))
		for i, m := range res {
			out[i] = x.cstr2(m)
		}
		return Slice{a: out}
	}
	intrinsics["(*regexp.Regexp).Split"] = func(x *Exec, a []Value) Value {
		r := a[0].(*RegexpObj)
		s, ok1 := a[1].(Str).concrete()
		n := a[2].(*Term)
		if r.native == nil || !ok1 || n.op != OpConst {
			x.engineErr("regexp: Split on symbolic data is not modelled")
		}
		res := r.native.Split(s, int(sval(n.w, n.k)))
		if res == nil {
			return Slice{}
		}
		out := make([]Value, len(res))
		for i, m := range res {
			out[i] = x.cstr2(m)
		}
		return Slice{a: out}
	}
}
