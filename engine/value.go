package main

import (
	"fmt"
	"go/types"
	"strings"

	"golang.org/x/tools/go/ssa"
)

type Value = interface{}

// Str is an immutable byte string of concrete length; bytes are 8-bit terms.
type Str struct{ b []*Term }

// Slice uses a native Go slice for aliasing/cap semantics. nil slice: a == nil.
type Slice struct {
	a   []Value
	tag *zTag // marks "this byte slice is the zlib stream of payload"
}

type zTag struct{ payload []*Term }

type Struct []Value
type Array []Value
type Tuple []Value

type Iface struct {
	t types.Type // dynamic type; nil => nil interface
	v Value
}

type MapV struct {
	keys []Value
	vals []Value
}

type Closure struct {
	fn  *ssa.Function
	env []Value
}

type rangeIter struct {
	m    *MapV
	keys []Value
	vals []Value
	i    int
	s    *Str
}

// goPanic models a Go run-time panic in the program under analysis.
type goPanic struct {
	msg string
	pos string
}

// procExit models os.Exit.
type procExit struct{ code int }

func (x *Exec) cstr(s string) Str {
	if len(s) <= 64 {
		if c, ok := x.c.strCache[s]; ok {
			return c
		}
		defer func() {
			if len(x.c.strCache) < 20000 {
				x.c.strCache[s] = x.cstr2(s)
			}
		}()
	}
	return x.cstr2(s)
}

func (x *Exec) cstr2(s string) Str {
	b := make([]*Term, len(s))
	for i := 0; i < len(s); i++ {
		b[i] = x.c.st.Const(8, uint64(s[i]))
	}
	return Str{b}
}

func (s Str) concrete() (string, bool) {
	var sb strings.Builder
	for _, t := range s.b {
		if t.op != OpConst {
			return "", false
		}
		sb.WriteByte(byte(t.k))
	}
	return sb.String(), true
}

func (s Str) show() string {
	var sb strings.Builder
	for _, t := range s.b {
		if t.op == OpConst {
			if t.k >= 0x20 && t.k < 0x7f {
				sb.WriteByte(byte(t.k))
			} else {
				fmt.Fprintf(&sb, "\\x%02x", t.k)
			}
		} else {
			sb.WriteString("‹" + t.String() + "›")
		}
	}
	return sb.String()
}

func under(t types.Type) types.Type { return t.Underlying() }

type intInfo struct {
	w      uint8
	signed bool
}

func basicInfo(t types.Type) (intInfo, bool) {
	b, ok := under(t).(*types.Basic)
	if !ok {
		return intInfo{}, false
	}
	switch b.Kind() {
	case types.Int, types.Int64, types.UntypedInt:
		return intInfo{64, true}, true
	case types.Int32, types.UntypedRune:
		return intInfo{32, true}, true
	case types.Int16:
		return intInfo{16, true}, true
	case types.Int8:
		return intInfo{8, true}, true
	case types.Uint, types.Uint64, types.Uintptr:
		return intInfo{64, false}, true
	case types.Uint32:
		return intInfo{32, false}, true
	case types.Uint16:
		return intInfo{16, false}, true
	case types.Uint8:
		return intInfo{8, false}, true
	}
	return intInfo{}, false
}

func isString(t types.Type) bool {
	b, ok := under(t).(*types.Basic)
	return ok && b.Info()&types.IsString != 0
}
func isBool(t types.Type) bool {
	b, ok := under(t).(*types.Basic)
	return ok && b.Info()&types.IsBoolean != 0
}

func typeKey(t types.Type) string { return types.TypeString(t, nil) }

// zero value of a type
func (x *Exec) zero(t types.Type) Value {
	if n, ok := t.(*types.Named); ok {
		if o := n.Obj(); o.Pkg() != nil {
			switch {
			case o.Name() == "Buffer" && o.Pkg().Path() == "bytes":
				return &BufObj{}
			case o.Name() == "Time" && o.Pkg().Path() == "time":
				return TimeVal{unix: x.c.st.Const(64, 0), off: x.c.st.Const(64, 0)}
			}
		}
	}
	if a, ok := t.(*types.Alias); ok {
		return x.zero(types.Unalias(a))
	}
	switch u := under(t).(type) {
	case *types.Basic:
		if u.Info()&types.IsString != 0 {
			return Str{}
		}
		if u.Info()&types.IsBoolean != 0 {
			return x.c.st.False
		}
		if ii, ok := basicInfo(u); ok {
			return x.c.st.Const(ii.w, 0)
		}
		if u.Kind() == types.UnsafePointer {
			return (*Value)(nil)
		}
		if u.Kind() == types.UntypedNil {
			return nil
		}
		return x.c.st.Const(64, 0) // floats etc: unsupported, never inspected
	case *types.Pointer:
		return (*Value)(nil)
	case *types.Slice:
		return Slice{}
	case *types.Map:
		return (*MapV)(nil)
	case *types.Signature:
		return nil
	case *types.Interface:
		return Iface{}
	case *types.Chan:
		return nil
	case *types.Struct:
		if tmpl, ok := x.c.zeroCache[t]; ok {
			return copyVal(tmpl)
		}
		s := make(Struct, u.NumFields())
		cacheable := true
		for i := range s {
			s[i] = x.zero(u.Field(i).Type())
			if _, isBuf := s[i].(*BufObj); isBuf {
				cacheable = false // model objects are fresh per value
			}
		}
		if cacheable && u.NumFields() > 6 {
			x.c.zeroCache[t] = copyVal(s)
		}
		return s
	case *types.Array:
		a := make(Array, u.Len())
		for i := range a {
			a[i] = x.zero(u.Elem())
		}
		return a
	case *types.Tuple:
		tp := make(Tuple, u.Len())
		for i := range tp {
			tp[i] = x.zero(u.At(i).Type())
		}
		return tp
	}
	panic(fmt.Sprintf("zero: unsupported type %s", t))
}

func copyVal(v Value) Value {
	switch v := v.(type) {
	case Struct:
		n := make(Struct, len(v))
		for i, f := range v {
			n[i] = copyVal(f)
		}
		return n
	case Array:
		n := make(Array, len(v))
		for i, f := range v {
			n[i] = copyVal(f)
		}
		return n
	}
	return v
}

// eqVal builds the Bool term for Go's == on two values of the same static type.
func (x *Exec) eqVal(a, b Value) *Term {
	st := x.c.st
	switch a := a.(type) {
	case *Term:
		return st.Eq(a, b.(*Term))
	case Str:
		bs := b.(Str)
		if len(a.b) != len(bs.b) {
			return st.False
		}
		r := st.True
		for i := range a.b {
			r = st.And(r, st.Eq(a.b[i], bs.b[i]))
			if r.IsFalse() {
				return r
			}
		}
		return r
	case Iface:
		bi, ok := b.(Iface)
		if !ok {
			// comparing interface with nil constant
			return st.Bool(a.t == nil && b == nil)
		}
		if a.t == nil || bi.t == nil {
			return st.Bool(a.t == nil && bi.t == nil)
		}
		if !types.Identical(a.t, bi.t) {
			return st.False
		}
		return x.eqVal(a.v, bi.v)
	case *Value:
		bp, _ := b.(*Value)
		return st.Bool(a == bp)
	case Struct:
		bs := b.(Struct)
		r := st.True
		for i := range a {
			r = st.And(r, x.eqVal(a[i], bs[i]))
		}
		return r
	case Array:
		bs := b.(Array)
		r := st.True
		for i := range a {
			r = st.And(r, x.eqVal(a[i], bs[i]))
		}
		return r
	case *MapV:
		bm, _ := b.(*MapV)
		return st.Bool(a == bm)
	case Slice:
		// only comparison with nil is legal
		bs, _ := b.(Slice)
		return st.Bool(a.a == nil && bs.a == nil)
	case nil:
		switch b := b.(type) {
		case nil:
			return st.True
		case Iface:
			return st.Bool(b.t == nil)
		case *Closure:
			return st.Bool(b == nil)
		case *ssa.Function:
			return st.Bool(b == nil)
		}
		return st.False
	case *Closure:
		return st.Bool(b == nil && a == nil)
	case *ssa.Function:
		return st.Bool(b == nil && a == nil)
	case TimeVal:
		bt := b.(TimeVal)
		return st.And(st.Eq(a.unix, bt.unix), st.Eq(a.off, bt.off))
	}
	// model objects: identity
	return st.Bool(a == b)
}

// strLess builds the term for lexicographic a < b.
func (x *Exec) strLess(a, b Str, orEq bool) *Term {
	st := x.c.st
	n := len(a.b)
	if len(b.b) < n {
		n = len(b.b)
	}
	// result when all first n bytes equal
	var tail *Term
	if orEq {
		tail = st.Bool(len(a.b) <= len(b.b))
	} else {
		tail = st.Bool(len(a.b) < len(b.b))
	}
	r := tail
	for i := n - 1; i >= 0; i-- {
		lt := st.Cmp(OpUlt, a.b[i], b.b[i])
		eq := st.Eq(a.b[i], b.b[i])
		r = st.Ite(lt, st.True, st.Ite(eq, r, st.False))
	}
	return r
}

func (x *Exec) strOf(v Value) Str {
	switch v := v.(type) {
	case Str:
		return v
	case Slice:
		b := make([]*Term, len(v.a))
		for i, e := range v.a {
			b[i] = e.(*Term)
		}
		return Str{b}
	}
	panic(fmt.Sprintf("strOf: %T", v))
}

func (x *Exec) bytesSlice(b []*Term) Slice {
	a := make([]Value, len(b))
	for i, t := range b {
		a[i] = t
	}
	return Slice{a: a}
}

func (x *Exec) intConst(v int64) *Term { return x.c.st.Const(64, uint64(v)) }

// concInt returns the concrete value of an integer term, concretising by case split when symbolic.
func (x *Exec) concInt(t *Term, lo, hi int64, what string) int64 {
	if t.op == OpConst {
		return sval(t.w, t.k)
	}
	st := x.c.st
	t64 := t
	for v := lo; v <= hi; v++ {
		if x.c.Branch(st.Eq(t64, st.Const(t.w, uint64(v)))) {
			return v
		}
	}
	return hi + 1 // caller treats as out-of-range
}
