package main

// The harness API (package internal/zzvp, symbolic side).

import (
	"fmt"
)

const zz = repoMod + "/internal/zzvp."

func alphaDom(alpha string) *[4]uint64 {
	if alpha == "" {
		return nil
	}
	var d [4]uint64
	// syntax: literal characters; "a-z" ranges when written as x-y with x<y; a leading "\x00-\xff" style is expressed by ""
	rs := []byte(alpha)
	for i := 0; i < len(rs); i++ {
		if i+2 < len(rs) && rs[i+1] == '-' && rs[i] < rs[i+2] {
			for c := int(rs[i]); c <= int(rs[i+2]); c++ {
				d[c>>6] |= 1 << (uint(c) & 63)
			}
			i += 2
			continue
		}
		c := rs[i]
		d[c>>6] |= 1 << (c & 63)
	}
	return &d
}

func (x *Exec) conc(v Value, what string) int {
	t := v.(*Term)
	if t.op != OpConst {
		x.engineErr("%s must be concrete", what)
	}
	return int(sval(t.w, t.k))
}

func (x *Exec) symBytes(name string, n int, alpha string) []*Term {
	dom := alphaDom(alpha)
	out := make([]*Term, n)
	for i := range out {
		out[i] = x.c.FreshVar("b_"+name, 8, dom)
	}
	x.c.inputs = append(x.c.inputs, inputRec{name: name, kind: "bytes", terms: out})
	return out
}

type snapNode struct {
	dir  bool
	ents []snapChild
	data []*Term
	z    *zTag
	raw  bool
	orig *FNode
}
type snapChild struct {
	name Str
	n    *snapNode
}

func snapOf(n *FNode) *snapNode {
	s := &snapNode{dir: n.dir, data: n.data[:len(n.data):len(n.data)], z: n.z, raw: n.raw, orig: n}
	for _, e := range n.ents {
		s.ents = append(s.ents, snapChild{e.name, snapOf(e.node)})
	}
	return s
}

func (x *Exec) snapEq(a, b *snapNode, path Str, except []Str) *Term {
	st := x.c.st
	for _, ex := range except {
		if len(ex.b) == len(path.b) && x.c.Branch(x.eqVal(ex, path)) {
			return st.True
		}
	}
	if a == nil || b == nil {
		return st.Bool(a == nil && b == nil)
	}
	if a.dir != b.dir {
		return st.False
	}
	if !a.dir {
		if (a.z == nil) != (b.z == nil) || a.raw != b.raw {
			return st.False
		}
		da, db := a.data, b.data
		if a.z != nil {
			da, db = a.z.payload, b.z.payload
		}
		return x.eqVal(Str{da}, Str{db})
	}
	// directories: every entry of a has an equal-named, equal entry in b and vice versa (names are unique per directory)
	res := st.True
	join := func(name Str) Str {
		return Str{append(append(append([]*Term{}, path.b...), st.Const(8, '/')), name.b...)}
	}
	match := func(xs, ys []snapChild, flip bool) {
		for _, ea := range xs {
			p := join(ea.name)
			found := st.False
			anyName := st.False
			for _, eb := range ys {
				if len(ea.name.b) != len(eb.name.b) {
					continue
				}
				ne := x.eqVal(ea.name, eb.name)
				if ne.IsFalse() {
					continue
				}
				var sub *Term
				if flip {
					sub = st.True // content compared in the forward direction already
				} else {
					sub = x.snapEq(ea.n, eb.n, p, except)
				}
				found = st.Or(found, st.And(ne, sub))
				anyName = st.Or(anyName, ne)
			}
			if !anyName.IsTrue() {
				// entry (possibly) missing on the other side: fine only if excepted
				var sub *Term
				if flip {
					sub = x.snapEq(nil, ea.n, p, except)
				} else {
					sub = x.snapEq(ea.n, nil, p, except)
				}
				found = st.Or(found, st.And(st.Not(anyName), sub))
			}
			res = st.And(res, found)
		}
	}
	match(a.ents, b.ents, false)
	match(b.ents, a.ents, true)
	return res
}

func (x *Exec) mkResult(r RunResult) Value {
	return Struct{x.intConst(int64(r.Exit)), r.Out, x.cstr(r.Panic)}
}

func init() {
	intrinsics[zz+"Bytes"] = func(x *Exec, a []Value) Value {
		return x.bytesSlice(x.symBytes(cs(x, a[0]), x.conc(a[1], "Bytes length"), cs(x, a[2])))
	}
	intrinsics[zz+"Str"] = func(x *Exec, a []Value) Value {
		return Str{x.symBytes(cs(x, a[0]), x.conc(a[1], "Str length"), cs(x, a[2]))}
	}
	intrinsics[zz+"Int"] = func(x *Exec, a []Value) Value {
		name := cs(x, a[0])
		lo, hi := a[1].(*Term), a[2].(*Term)
		v := x.c.FreshVar("i_"+name, 64, nil)
		x.c.inputs = append(x.c.inputs, inputRec{name: name, kind: "int", terms: []*Term{v}})
		st := x.c.st
		x.c.Assume(st.And(st.Cmp(OpSle, lo, v), st.Cmp(OpSle, v, hi)))
		return v
	}
	intrinsics[zz+"Bool"] = func(x *Exec, a []Value) Value {
		name := cs(x, a[0])
		v := x.c.FreshVar("p_"+name, 0, nil)
		x.c.inputs = append(x.c.inputs, inputRec{name: name, kind: "bool", terms: []*Term{v}})
		return v
	}
	intrinsics[zz+"Choose"] = func(x *Exec, a []Value) Value {
		n := x.conc(a[0], "Choose n")
		r := x.c.Choose(n, "harness")
		x.c.hchoices = append(x.c.hchoices, r)
		return x.intConst(int64(r))
	}
	intrinsics[zz+"Param"] = func(x *Exec, a []Value) Value {
		name := cs(x, a[0])
		if v, ok := x.params[name]; ok {
			return x.intConst(int64(v))
		}
		return a[1]
	}
	intrinsics[zz+"Assume"] = func(x *Exec, a []Value) Value { x.c.Assume(a[0].(*Term)); return nil }
	intrinsics[zz+"Assert"] = func(x *Exec, a []Value) Value { x.c.Assert(a[0].(*Term), cs(x, a[1])); return nil }
	intrinsics[zz+"Note"] = func(x *Exec, a []Value) Value {
		x.c.notes = append(x.c.notes, a[0].(Str).show())
		return nil
	}
	intrinsics[zz+"Known"] = func(x *Exec, a []Value) Value { return x.c.st.Bool(x.c.cfg.Known[cs(x, a[0])]) }
	intrinsics[zz+"Root"] = func(x *Exec, a []Value) Value { return x.fs.cwd }
	intrinsics[zz+"Home"] = func(x *Exec, a []Value) Value { return x.fs.home }
	intrinsics[zz+"Done"] = func(x *Exec, a []Value) Value { x.c.reachedEnd = true; return nil }
	intrinsics[zz+"MapOrderNondet"] = func(x *Exec, a []Value) Value { x.mapNondet = true; return nil }

	intrinsics[zz+"Capture"] = func(x *Exec, a []Value) Value {
		old := x.proc
		x.proc = &Proc{}
		defer func() { x.proc = old }()
		x.callValue(a[0], nil)
		return Str{x.proc.out}
	}
	intrinsics[zz+"Run"] = func(x *Exec, a []Value) Value {
		var argv []Str
		for _, e := range a[0].(Slice).a {
			argv = append(argv, e.(Str))
		}
		return x.mkResult(x.runCommand(argv))
	}
	intrinsics[zz+"SetIntFlag"] = func(x *Exec, a []Value) Value {
		if x.flagOverride == nil {
			x.flagOverride = map[string]Value{}
		}
		x.flagOverride[cs(x, a[0])] = a[1]
		return nil
	}
	intrinsics[zz+"SetClock"] = func(x *Exec, a []Value) Value {
		digs := a[0].(Str)
		st := x.c.st
		for _, d := range digs.b {
			x.c.Assume(x.isDigit(d))
		}
		if len(digs.b) > 1 {
			x.c.Assume(st.Not(st.Eq(digs.b[0], st.Const(8, '0'))))
		}
		u := x.horner(digs.b)
		if u.op != OpConst {
			u.dec = digs.b
		}
		x.clock = &ClockModel{unix: u, off: a[1].(*Term)}
		return nil
	}
	intrinsics[zz+"ClockControlled"] = func(x *Exec, a []Value) Value { return x.c.st.True }
	intrinsics[zz+"Time"] = func(x *Exec, a []Value) Value {
		digs := a[0].(Str)
		st := x.c.st
		for _, d := range digs.b {
			x.c.Assume(x.isDigit(d))
		}
		if len(digs.b) > 1 {
			x.c.Assume(st.Not(st.Eq(digs.b[0], st.Const(8, '0'))))
		}
		u := x.horner(digs.b)
		if u.op != OpConst {
			u.dec = digs.b
		}
		return TimeVal{unix: u, off: a[1].(*Term)}
	}
	intrinsics[zz+"CrashAt"] = func(x *Exec, a []Value) Value {
		x.fs.crashAt = a[0].(*Term)
		x.fs.crashed = false
		x.fs.mutCount = 0
		return nil
	}
	intrinsics[zz+"FaultAt"] = func(x *Exec, a []Value) Value {
		x.fs.faultAt = a[0].(*Term)
		x.fs.faulted = false
		x.fs.opCount = 0
		return nil
	}
	intrinsics[zz+"NoCrash"] = func(x *Exec, a []Value) Value { x.fs.crashAt = nil; return nil }
	intrinsics[zz+"NoFault"] = func(x *Exec, a []Value) Value { x.fs.faultAt = nil; return nil }
	intrinsics[zz+"Mutations"] = func(x *Exec, a []Value) Value { return x.intConst(int64(x.fs.mutCount)) }
	intrinsics[zz+"Ops"] = func(x *Exec, a []Value) Value { return x.intConst(int64(x.fs.opCount)) }
	intrinsics[zz+"Faulted"] = func(x *Exec, a []Value) Value { return x.c.st.Bool(x.fs.faulted) }
	intrinsics[zz+"Crashed"] = func(x *Exec, a []Value) Value { return x.c.st.Bool(x.fs.crashed) }

	intrinsics[zz+"Sha1"] = func(x *Exec, a []Value) Value {
		return x.bytesSlice(x.shaSum(x.strOf(a[0]).b))
	}

	// ---- model-FS access for oracles (no fault/crash accounting) ----
	put := func(x *Exec, p Str, mk func(n *FNode)) {
		comps, _ := x.splitPath(p)
		cur := x.fs.root
		for i, c := range comps {
			e := cur.find(x, c)
			if e == nil {
				nn := &FNode{dir: i < len(comps)-1}
				cur.ents = append(cur.ents, &FEnt{name: c, node: nn})
				cur = nn
			} else {
				cur = e.node
			}
		}
		cur.dir = false
		cur.ents = nil
		mk(cur)
	}
	intrinsics[zz+"WriteFile"] = func(x *Exec, a []Value) Value {
		put(x, a[0].(Str), func(n *FNode) { n.data, n.z, n.raw = x.strOf(a[1]).b, nil, false })
		return nil
	}
	intrinsics[zz+"WriteZ"] = func(x *Exec, a []Value) Value {
		put(x, a[0].(Str), func(n *FNode) { n.data, n.z, n.raw = nil, &zTag{payload: x.strOf(a[1]).b}, false })
		return nil
	}
	intrinsics[zz+"WriteRaw"] = func(x *Exec, a []Value) Value {
		put(x, a[0].(Str), func(n *FNode) { n.data, n.z, n.raw = x.strOf(a[1]).b, nil, true })
		return nil
	}
	intrinsics[zz+"ReadFile"] = func(x *Exec, a []Value) Value {
		n, _, _, ek := x.resolve(a[0].(Str))
		if ek != "" || n.dir || n.z != nil {
			return Tuple{Slice{}, x.c.st.False}
		}
		s := x.bytesSlice(n.data)
		if s.a == nil {
			s.a = []Value{}
		}
		return Tuple{s, x.c.st.True}
	}
	intrinsics[zz+"ReadZ"] = func(x *Exec, a []Value) Value {
		n, _, _, ek := x.resolve(a[0].(Str))
		if ek != "" || n.dir || n.z == nil {
			return Tuple{Slice{}, x.c.st.False}
		}
		s := x.bytesSlice(n.z.payload)
		if s.a == nil {
			s.a = []Value{}
		}
		return Tuple{s, x.c.st.True}
	}
	intrinsics[zz+"Exists"] = func(x *Exec, a []Value) Value {
		_, _, _, ek := x.resolve(a[0].(Str))
		return x.c.st.Bool(ek == "")
	}
	intrinsics[zz+"IsDir"] = func(x *Exec, a []Value) Value {
		n, _, _, ek := x.resolve(a[0].(Str))
		return x.c.st.Bool(ek == "" && n.dir)
	}
	intrinsics[zz+"MkdirAll"] = func(x *Exec, a []Value) Value {
		comps, _ := x.splitPath(a[0].(Str))
		cur := x.fs.root
		for _, c := range comps {
			e := cur.find(x, c)
			if e == nil {
				nn := &FNode{dir: true}
				cur.ents = append(cur.ents, &FEnt{name: c, node: nn})
				cur = nn
			} else {
				cur = e.node
			}
		}
		return nil
	}
	intrinsics[zz+"RemoveAll"] = func(x *Exec, a []Value) Value {
		n, par, _, ek := x.resolve(a[0].(Str))
		if ek != "" || par == nil {
			return nil
		}
		for i, e := range par.ents {
			if e.node == n {
				par.ents = append(par.ents[:i:i], par.ents[i+1:]...)
				break
			}
		}
		return nil
	}
	intrinsics[zz+"List"] = func(x *Exec, a []Value) Value {
		n, _, _, ek := x.resolve(a[0].(Str))
		out := []Value{}
		if ek == "" && n.dir {
			for _, e := range x.sortedEnts(n) {
				out = append(out, e.name)
			}
		}
		return Slice{a: out}
	}
	intrinsics[zz+"Checkpoint"] = func(x *Exec, a []Value) Value {
		x.checkpoints = append(x.checkpoints, cloneFNode(x.fs.root))
		return x.intConst(int64(len(x.checkpoints) - 1))
	}
	intrinsics[zz+"Restore"] = func(x *Exec, a []Value) Value {
		x.fs.root = cloneFNode(x.checkpoints[x.conc(a[0], "checkpoint id")])
		return nil
	}
	intrinsics[zz+"Snapshot"] = func(x *Exec, a []Value) Value {
		p := a[0].(Str)
		n, _, _, ek := x.resolve(p)
		var s *snapNode
		if ek == "" {
			s = snapOf(n)
		}
		x.snaps = append(x.snaps, snapRec{s, p})
		return x.intConst(int64(len(x.snaps) - 1))
	}
	intrinsics[zz+"SnapEq"] = func(x *Exec, a []Value) Value {
		sa, sb := x.snaps[x.conc(a[0], "snapshot id")], x.snaps[x.conc(a[1], "snapshot id")]
		var ex []Str
		for _, e := range a[2].(Slice).a {
			ex = append(ex, e.(Str))
		}
		return x.snapEq(sa.n, sb.n, sa.path, ex)
	}
}

func cloneFNode(n *FNode) *FNode {
	c := &FNode{dir: n.dir, data: n.data[:len(n.data):len(n.data)], z: n.z, raw: n.raw}
	for _, e := range n.ents {
		c.ents = append(c.ents, &FEnt{name: e.name, node: cloneFNode(e.node)})
	}
	return c
}

type snapRec struct {
	n    *snapNode
	path Str
}

var _ = fmt.Sprint
