package main

// time, cobra/pflag and the process model (zzvp.Run).

import (
	"fmt"
	"go/types"
	"strings"

	"golang.org/x/tools/go/ssa"
)

type TimeVal struct {
	unix *Term // 64-bit seconds
	off  *Term // 64-bit zone offset in seconds
}
type LocObj struct{ off *Term }

type ClockModel struct {
	unix *Term
	off  *Term
}

type Proc struct {
	out  []*Term
	ops  int
	muts int
}

type flagRec struct {
	name  string
	short string
	kind  string // bool, string, int
	cell  *Value
}
type FlagSetObj struct{ flags []*flagRec }

func (f *FlagSetObj) find(name string, short bool) *flagRec {
	for _, r := range f.flags {
		if (!short && r.name == name) || (short && r.short == name && name != "") {
			return r
		}
	}
	return nil
}

func cs(x *Exec, v Value) string {
	s, ok := v.(Str).concrete()
	if !ok {
		x.engineErr("expected concrete string")
	}
	return s
}

func init() {
	// ---- time ----
	intrinsics["time.Now"] = func(x *Exec, a []Value) Value {
		if x.clock == nil {
			x.clock = &ClockModel{unix: x.intConst(1700000000), off: x.intConst(0)}
		}
		return TimeVal{unix: x.clock.unix, off: x.clock.off}
	}
	intrinsics["(time.Time).Unix"] = func(x *Exec, a []Value) Value { return a[0].(TimeVal).unix }
	intrinsics["(time.Time).Zone"] = func(x *Exec, a []Value) Value { return Tuple{x.cstr("ZZZ"), a[0].(TimeVal).off} }
	intrinsics["time.FixedZone"] = func(x *Exec, a []Value) Value { return &LocObj{off: a[1].(*Term)} }
	intrinsics["time.Unix"] = func(x *Exec, a []Value) Value {
		off := x.intConst(0)
		if x.clock != nil {
			off = x.clock.off
		}
		return TimeVal{unix: a[0].(*Term), off: off}
	}
	intrinsics["(time.Time).In"] = func(x *Exec, a []Value) Value {
		l, ok := a[1].(*LocObj)
		if !ok || l == nil {
			x.gopanic("time: missing Location in call to Time.In")
		}
		return TimeVal{unix: a[0].(TimeVal).unix, off: l.off}
	}
	intrinsics["(time.Time).String"] = func(x *Exec, a []Value) Value { return x.cstr("<time>") }

	// ---- cobra / pflag ----
	intrinsics["(*github.com/spf13/cobra.Command).AddCommand"] = func(x *Exec, a []Value) Value {
		for _, c := range a[1].(Slice).a {
			x.cmds = append(x.cmds, c.(*Value))
		}
		return nil
	}
	intrinsics["(*github.com/spf13/cobra.Command).Flags"] = func(x *Exec, a []Value) Value {
		p := a[0].(*Value)
		if p == nil {
			x.gopanic("nil *cobra.Command")
		}
		fs, ok := x.flagsOf[p]
		if !ok {
			fs = &FlagSetObj{}
			x.flagsOf[p] = fs
		}
		return fs
	}
	reg := func(x *Exec, fs Value, cell *Value, name, short, kind string, def Value) {
		f := fs.(*FlagSetObj)
		if cell == nil {
			cell = new(Value)
		}
		*cell = def
		f.flags = append(f.flags, &flagRec{name: name, short: short, kind: kind, cell: cell})
	}
	pf := "(*github.com/spf13/pflag.FlagSet)."
	intrinsics[pf+"BoolP"] = func(x *Exec, a []Value) Value {
		c := new(Value)
		reg(x, a[0], c, cs(x, a[1]), cs(x, a[2]), "bool", a[3])
		return c
	}
	intrinsics[pf+"Bool"] = func(x *Exec, a []Value) Value {
		c := new(Value)
		reg(x, a[0], c, cs(x, a[1]), "", "bool", a[2])
		return c
	}
	intrinsics[pf+"BoolVar"] = func(x *Exec, a []Value) Value {
		reg(x, a[0], a[1].(*Value), cs(x, a[2]), "", "bool", a[3])
		return nil
	}
	intrinsics[pf+"BoolVarP"] = func(x *Exec, a []Value) Value {
		reg(x, a[0], a[1].(*Value), cs(x, a[2]), cs(x, a[3]), "bool", a[4])
		return nil
	}
	intrinsics[pf+"StringVarP"] = func(x *Exec, a []Value) Value {
		reg(x, a[0], a[1].(*Value), cs(x, a[2]), cs(x, a[3]), "string", a[4])
		return nil
	}
	intrinsics[pf+"IntVarP"] = func(x *Exec, a []Value) Value {
		reg(x, a[0], a[1].(*Value), cs(x, a[2]), cs(x, a[3]), "int", a[4])
		return nil
	}
	intrinsics[pf+"GetBool"] = func(x *Exec, a []Value) Value {
		f := a[0].(*FlagSetObj)
		name := cs(x, a[1])
		r := f.find(name, false)
		if r == nil || r.kind != "bool" {
			return Tuple{x.c.st.False, x.newErrS("flag accessed but not defined: "+name, "")}
		}
		return Tuple{*r.cell, nilErr}
	}
}

func (x *Exec) structField(t types.Type, name string) int {
	s := under(t).(*types.Struct)
	for i := 0; i < s.NumFields(); i++ {
		if s.Field(i).Name() == name {
			return i
		}
	}
	x.engineErr("no field %s in %s", name, t)
	return -1
}

type RunResult struct {
	Exit  int
	Out   Str
	Panic string
}

// startProcess re-creates the package-level state exactly as a fresh OS process would: all globals zeroed,
// then the initialisers of every Goit package and cmd's init() functions run from SSA against the model FS.
func (x *Exec) startProcess() {
	x.globals = map[*ssa.Global]*Value{}
	x.stdInit = map[*ssa.Package]bool{}
	x.cmds = nil
	x.flagsOf = map[*Value]*FlagSetObj{}
	cmdPkg := x.ld.pkgs[repoMod+"/cmd"]
	x.callFunction(cmdPkg.Func("init"), nil, nil)
}

// runCommand models one `goit <argv...>` invocation.
func (x *Exec) runCommand(argv []Str) (res RunResult) {
	x.proc = &Proc{}
	defer func() {
		res.Out = Str{x.proc.out}
		x.proc = nil
		if r := recover(); r != nil {
			switch r := r.(type) {
			case procExit:
				res.Exit = r.code
			case goPanic:
				res.Exit = 2
				res.Panic = r.msg
				if len(argv) > 0 {
					line := "goit"
					for _, a := range argv {
						line += " " + a.show()
					}
					x.c.notes = append(x.c.notes, line+": panic: "+r.msg)
					if len(x.c.stats.PanicSamples) < 8 {
						x.c.stats.PanicSamples = append(x.c.stats.PanicSamples, line+": panic: "+r.msg)
					}
				}
				x.c.stats.Panics++
			case procCrash:
				res.Exit = 137
			default:
				panic(r)
			}
		}
	}()
	x.startProcess()
	if len(argv) == 0 {
		return RunResult{Exit: 0}
	}
	name, ok := argv[0].concrete()
	if !ok {
		x.engineErr("symbolic sub-command name")
	}
	cmdT := x.ld.pkgs[repoMod+"/cmd"].Var("rootCmd").Type().(*types.Pointer).Elem().(*types.Pointer).Elem()
	fUse := x.structField(cmdT, "Use")
	var cmd *Value
	for _, c := range x.cmds {
		use, _ := (*c).(Struct)[fUse].(Str).concrete()
		if strings.Fields(use)[0] == name {
			cmd = c
		}
	}
	if cmd == nil {
		return RunResult{Exit: 1} // unknown command
	}
	fs := x.flagsOf[cmd]
	if fs == nil {
		fs = &FlagSetObj{}
	}
	// argv tokenisation: flags must be concrete tokens; `--` ends flag parsing
	var args []Value
	noMore := false
	for i := 1; i < len(argv); i++ {
		tok := argv[i]
		ts, conc := tok.concrete()
		if !conc {
			// symbolic token: must not look like a flag (harnesses assume the first byte is not '-')
			if len(tok.b) > 0 && x.c.Branch(x.c.st.Eq(tok.b[0], x.c.st.Const(8, '-'))) {
				x.c.notes = append(x.c.notes, "symbolic argument starting with '-' (cobra flag parsing not modelled)")
				panic(pathAbort{"assume-false"})
			}
			args = append(args, tok)
			continue
		}
		if noMore || !strings.HasPrefix(ts, "-") || ts == "-" {
			args = append(args, tok)
			continue
		}
		if ts == "--" {
			noMore = true
			continue
		}
		var rec *flagRec
		var inlineVal *Str
		if strings.HasPrefix(ts, "--") {
			n := ts[2:]
			if eq := strings.IndexByte(n, '='); eq >= 0 {
				v := x.cstr(n[eq+1:])
				inlineVal = &v
				n = n[:eq]
			}
			rec = fs.find(n, false)
		} else {
			rec = fs.find(ts[1:2], true)
			if len(ts) > 2 {
				v := x.cstr(ts[2:])
				if rec != nil && rec.kind == "bool" {
					x.engineErr("combined short flags not modelled")
				}
				inlineVal = &v
			}
		}
		if rec == nil {
			return RunResult{Exit: 1} // unknown flag: cobra prints usage, exit 1
		}
		if rec.kind == "bool" {
			v := x.c.st.True
			if inlineVal != nil {
				s, _ := inlineVal.concrete()
				switch s {
				case "true", "1", "t", "T", "TRUE", "True":
				case "false", "0", "f", "F", "FALSE", "False":
					v = x.c.st.False
				default:
					return RunResult{Exit: 1}
				}
			}
			*rec.cell = v
			continue
		}
		var val Str
		if inlineVal != nil {
			val = *inlineVal
		} else {
			if i+1 >= len(argv) {
				return RunResult{Exit: 1} // flag needs an argument
			}
			i++
			val = argv[i]
		}
		switch rec.kind {
		case "string":
			*rec.cell = val
		case "int":
			r := x.parseInt(val, "ParseInt").(Tuple)
			if r[1].(Iface).t != nil {
				return RunResult{Exit: 1}
			}
			*rec.cell = r[0]
		}
	}
	// harness-injected raw flag values (symbolic ints)
	for n, v := range x.flagOverride {
		if rec := fs.find(n, false); rec != nil {
			*rec.cell = v
		}
	}
	x.flagOverride = nil
	cs := (*cmd).(Struct)
	argSlice := Slice{a: args}
	if args == nil {
		argSlice = Slice{a: []Value{}}
	}
	call := func(field string) (called bool, failed bool) {
		fv := cs[x.structField(cmdT, field)]
		if fv == nil {
			return false, false
		}
		r := x.callValue(fv, []Value{cmd, argSlice})
		if ifc, ok := r.(Iface); ok && ifc.t != nil {
			return true, true
		}
		return true, false
	}
	if _, failed := call("PreRunE"); failed {
		return RunResult{Exit: 1}
	}
	if called, failed := call("RunE"); called {
		if failed {
			return RunResult{Exit: 1}
		}
		return RunResult{Exit: 0}
	}
	call("Run")
	return RunResult{Exit: 0}
}

var _ = fmt.Sprintf
