package main

import (
	"bufio"
	"fmt"
	"io"
	"os"
	"os/exec"
	"strconv"
	"strings"
	"time"
)

type Res int

const (
	Unsat Res = iota
	Sat
	Unknown
)

func (r Res) String() string { return [...]string{"unsat", "sat", "unknown"}[r] }

type Solver struct {
	bin           string
	args          []string
	cmd           *exec.Cmd
	in            io.WriteCloser
	out           *bufio.Reader
	defined       map[uint32]bool
	stack         []*Term // conjuncts currently asserted, one push level each
	declared      []*Term
	Queries       int
	Time          time.Duration
	NSat          int
	NUnsat        int
	NUnk          int
	Errors        int
	log           io.Writer
	shadow        *Solver
	isShadow      bool
	Disagreements int
}

func NewSolver(kind string) *Solver {
	s := &Solver{}
	switch kind {
	case "z3", "":
		s.bin, s.args = "z3", []string{"-in"}
	case "z3-new":
		s.bin, s.args = "z3-new", []string{"-in"}
	case "cvc5":
		s.bin, s.args = "cvc5", []string{"--incremental", "--produce-models", "--lang=smt2"}
	default:
		panic("unknown solver " + kind)
	}
	s.start()
	return s
}

func (s *Solver) start() {
	s.cmd = exec.Command(s.bin, s.args...)
	in, _ := s.cmd.StdinPipe()
	out, _ := s.cmd.StdoutPipe()
	s.cmd.Stderr = nil
	if err := s.cmd.Start(); err != nil {
		panic(err)
	}
	s.in = in
	s.out = bufio.NewReaderSize(out, 1<<20)
	s.defined = map[uint32]bool{}
	s.stack = nil
	s.declared = nil
	if s.bin == "cvc5" {
		fmt.Fprintln(s.in, "(set-logic QF_BV)")
	}
	fmt.Fprintln(s.in, "(set-option :produce-models true)")
	fmt.Fprintln(s.in, "(set-option :global-declarations true)")
}

func (s *Solver) Close() {
	if s.cmd != nil {
		s.in.Close()
		s.cmd.Process.Kill()
		s.cmd.Wait()
		s.cmd = nil
	}
}

func (s *Solver) Restart() {
	s.Close()
	s.start()
}

func (s *Solver) define(sb *strings.Builder, t *Term) {
	if t == nil || t.op == OpConst || s.defined[t.id] {
		return
	}
	s.defined[t.id] = true
	if t.op == OpVar {
		fmt.Fprintf(sb, "(declare-const %s %s)\n", t.name, sortStr(t.w))
		s.declared = append(s.declared, t)
		return
	}
	s.define(sb, t.a)
	s.define(sb, t.b)
	s.define(sb, t.c)
	fmt.Fprintf(sb, "(define-fun n%d () %s %s)\n", t.id, sortStr(t.w), t.body())
}

// Check decides satisfiability of the conjunction; on Sat returns values of all variables in the cone.
var crossCheck = os.Getenv("GOITSYM_CROSSCHECK") != ""

// Check decides satisfiability of the conjunction (see check1); with GOITSYM_CROSSCHECK set every answer is compared
// with a fresh, non-incremental solver process.
func (s *Solver) Check(conj []*Term, timeoutMs int) (Res, Model) {
	res, m := s.check1(conj, timeoutMs)
	if crossCheck && s.shadow == nil && !s.isShadow {
		s.shadow = NewSolver("z3")
		s.shadow.isShadow = true
	}
	if crossCheck && !s.isShadow {
		s.shadow.Restart()
		r2, _ := s.shadow.check1(conj, timeoutMs)
		if r2 != res {
			fmt.Fprintf(os.Stderr, "SOLVER DISAGREEMENT: incremental=%s fresh=%s (%d conjuncts)\n", res, r2, len(conj))
			s.Disagreements++
		}
	}
	return res, m
}

func (s *Solver) check1(conj []*Term, timeoutMs int) (Res, Model) {
	t0 := time.Now()
	defer func() { s.Time += time.Since(t0); s.Queries++ }()
	var sb strings.Builder
	for _, c := range conj {
		s.define(&sb, c)
	}
	// values are requested for every variable declared so far in this solver process (names are reused across paths,
	// so the set stays small); walking the whole path condition for its variables at every query was a hot spot
	vars := s.declared
	if s.bin == "cvc5" {
		fmt.Fprintf(&sb, "(set-option :tlimit-per %d)\n", timeoutMs)
	} else {
		fmt.Fprintf(&sb, "(set-option :timeout %d)\n", timeoutMs)
	}
	// incremental: keep the common prefix of the previous query asserted, one push level per conjunct
	prefix := conj[:len(conj)-1]
	l := 0
	for l < len(s.stack) && l < len(prefix) && s.stack[l] == prefix[l] {
		l++
	}
	if d := len(s.stack) - l; d > 0 {
		fmt.Fprintf(&sb, "(pop %d)\n", d)
		s.stack = s.stack[:l]
	}
	for _, c := range prefix[l:] {
		sb.WriteString("(push 1)\n(assert " + c.ref() + ")\n")
		s.stack = append(s.stack, c)
	}
	sb.WriteString("(push 1)\n(assert " + conj[len(conj)-1].ref() + ")\n")
	sb.WriteString("(check-sat)\n(echo \"@@CS\")\n")
	if s.log != nil {
		io.WriteString(s.log, sb.String())
	}
	if _, err := io.WriteString(s.in, sb.String()); err != nil {
		s.Errors++
		s.Restart()
		return Unknown, nil
	}
	lines, ok := s.readUntil("@@CS")
	res := Unknown
	if ok {
		for _, l := range lines {
			switch strings.TrimSpace(l) {
			case "sat":
				res = Sat
			case "unsat":
				res = Unsat
			}
			if strings.Contains(l, "(error") {
				s.Errors++
				res = Unknown
				break
			}
		}
	} else {
		s.Errors++
		s.Restart()
		return Unknown, nil
	}
	var model Model
	if res == Sat {
		model = Model{}
		if len(vars) > 0 {
			var q strings.Builder
			q.WriteString("(get-value (")
			for _, v := range vars {
				q.WriteString(v.name + " ")
			}
			q.WriteString("))\n(echo \"@@GV\")\n")
			io.WriteString(s.in, q.String())
			ls, ok := s.readUntil("@@GV")
			if !ok {
				s.Errors++
				s.Restart()
				return Unknown, nil
			}
			parseValues(strings.Join(ls, " "), model)
		}
	}
	io.WriteString(s.in, "(pop 1)\n")
	switch res {
	case Sat:
		s.NSat++
	case Unsat:
		s.NUnsat++
	default:
		s.NUnk++
	}
	return res, model
}

func (s *Solver) readUntil(marker string) ([]string, bool) {
	var lines []string
	for {
		l, err := s.out.ReadString('\n')
		if err != nil {
			return lines, false
		}
		l = strings.TrimRight(l, "\n")
		if strings.Trim(l, "\"") == marker {
			return lines, true
		}
		lines = append(lines, l)
	}
}

// parseValues parses "((a #x41) (b true) (c #b101))".
func parseValues(s string, m Model) {
	s = strings.ReplaceAll(s, "(", " ( ")
	s = strings.ReplaceAll(s, ")", " ) ")
	toks := strings.Fields(s)
	for i := 0; i+3 < len(toks); i++ {
		if toks[i] == "(" && toks[i+1] != "(" && toks[i+3] == ")" {
			name, val := toks[i+1], toks[i+2]
			switch {
			case val == "true":
				m[name] = 1
			case val == "false":
				m[name] = 0
			case strings.HasPrefix(val, "#x"):
				v, _ := strconv.ParseUint(val[2:], 16, 64)
				m[name] = v
			case strings.HasPrefix(val, "#b"):
				v, _ := strconv.ParseUint(val[2:], 2, 64)
				m[name] = v
			}
		}
	}
}
