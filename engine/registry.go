package main

import "time"

type HarnessDef struct {
	Pkg      string
	Func     string
	Quick    map[string]int
	Thorough map[string]int
	Share    float64 // share of the property's time budget
}

type PropDef struct {
	Harnesses      []HarnessDef
	QuickBudget    time.Duration
	ThoroughBudget time.Duration
	Assumptions    []string
}

var commonAssumptions = []string{
	"code outside module github.com/JunNishimura/Goit is modelled by intrinsics written against its documented contract (fmt, strings, strconv, bytes, bufio, io, encoding/hex, encoding/binary, regexp via regexp/syntax + symbolic Pike NFA, sort.Slice as insertion sort through the program's less closure, os/filepath over an in-memory POSIX-like file system, time, cobra/pflag flag registration)",
	"SHA-1 is an uninterpreted function with functional-consistency and collision-freedom axioms between all applications on a path; concrete inputs use the real digest",
	"zlib is modelled as an injective container: a stream written by the model decodes to its payload; other bytes decode to an error or to arbitrary plaintext",
	"string and slice lengths are concrete on each path; every input size is an explicit choice inside the stated bound; symbolic non-ASCII bytes in regexp subjects are treated as one non-ASCII rune each",
	"solver: z3 4.8.12; `unknown`/timeouts are counted as undischarged and never as success",
}

var registry = map[string]*PropDef{
	"SMOKE": {Harnesses: []HarnessDef{{Pkg: "cmd", Func: "VP_Smoke", Share: 1}}, QuickBudget: time.Minute, ThoroughBudget: time.Minute},
	"C06": {
		Harnesses: []HarnessDef{
			{Pkg: "internal/store", Func: "VP_C06_GetEntry", Quick: map[string]int{"entries": 3, "depth": 2, "complen": 2}, Thorough: map[string]int{"entries": 4, "depth": 2, "complen": 2}, Share: 0.3},
			{Pkg: "internal/store", Func: "VP_C06_IsDir", Quick: map[string]int{"entries": 3, "depth": 2, "complen": 2}, Thorough: map[string]int{"entries": 4, "depth": 2, "complen": 2}, Share: 0.3},
			{Pkg: "internal/store", Func: "VP_C06_ByDir", Quick: map[string]int{"entries": 3, "depth": 2, "complen": 2}, Thorough: map[string]int{"entries": 4, "depth": 2, "complen": 2}, Share: 0.3},
		},
		QuickBudget: 4 * time.Minute, ThoroughBudget: 30 * time.Minute,
		Assumptions: commonAssumptions,
	},
}
