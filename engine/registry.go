package main

import "time"

type HarnessDef struct {
	Pkg      string
	Func     string
	Quick    map[string]int
	Thorough map[string]int
	Share    float64 // share of the property's time budget
	// ThoroughOnly entries run in the thorough tier only; thorough parameters are layered over the quick ones
	ThoroughOnly bool
}

type PropDef struct {
	Harnesses      []HarnessDef
	QuickBudget    time.Duration
	ThoroughBudget time.Duration
	Assumptions    []string
}

var commonAssumptions = []string{
	"code outside module github.com/JunNishimura/Goit is modelled by intrinsics written against its documented contract (fmt, strings, strconv, bytes, bufio, io, encoding/hex, encoding/binary, regexp via regexp/syntax + symbolic Pike NFA, sort.Slice as insertion sort through the program's less closure, os/filepath over an in-memory POSIX-like file system, time, cobra/pflag flag registration)",
	"SHA-1 is modelled as an injective function: concrete inputs get the real digest, a symbolic input gets a fresh constant unless it equals an earlier input (then that input's digest; a later concrete input is case-split against earlier symbolic ones), so functional consistency and collision freedom hold between all applications on a path; harnesses run with freeDigest=1 use free digest bytes with Ackermann axioms instead",
	"zlib is modelled as an injective container: a stream written by the model decodes to its payload; other bytes decode to an error or to arbitrary plaintext",
	"string and slice lengths are concrete on each path; every input size is an explicit choice inside the stated bound; symbolic non-ASCII bytes in regexp subjects are treated as one non-ASCII rune each",
	"solver: z3 5.1.0 (z3-new) when on PATH, else z3 4.8.12; thorough tier re-decides every assertion VC with cvc5 and every 10th with the other z3, and every 4th pruned branch side with cvc5; `unknown`/timeouts/disagreements are counted as undischarged or unproved and never as success",
}

var registry = map[string]*PropDef{
	"SMOKE": {Harnesses: []HarnessDef{{Pkg: "cmd", Func: "VP_Smoke", Share: 1.00}}, QuickBudget: time.Minute, ThoroughBudget: time.Minute},
	"C01": {
		Harnesses: []HarnessDef{
			{Pkg: "internal/object", Func: "VP_C01_RoundTrip", Quick: map[string]int{"payload": 6, "shortReads": 1}, Thorough: map[string]int{"payload": 48, "shortReads": 1}, Share: 1.00},
			{Pkg: "internal/object", Func: "VP_C01_Header", Quick: map[string]int{"sizedigits": 10, "rest": 2}, Thorough: map[string]int{"sizedigits": 18, "rest": 4}, Share: 1.00},
			{Pkg: "internal/object", Func: "VP_C01_Idempotent", Quick: map[string]int{"payload": 3}, Thorough: map[string]int{"payload": 8}, Share: 1.00},
			// the same kernels with SHA-1 as a free function (20 fresh bytes per application + Ackermann axioms) instead of the pseudo-digest
			{Pkg: "internal/object", Func: "VP_C01_RoundTrip", Quick: map[string]int{"payload": 4, "shortReads": 1, "freeDigest": 1}, Thorough: map[string]int{"payload": 16, "shortReads": 1, "freeDigest": 1}, Share: 1.00},
			{Pkg: "internal/object", Func: "VP_C01_Idempotent", Quick: map[string]int{"payload": 2, "freeDigest": 1}, Thorough: map[string]int{"payload": 3, "freeDigest": 1}, Share: 1.00},
			{Pkg: "internal/object", Func: "VP_C01_Blocks", Quick: map[string]int{"maxBackEdges": 400000}, Thorough: map[string]int{"maxBackEdges": 400000}, Share: 1.00},
			{Pkg: "cmd", Func: "VP_C01_Cli", Quick: map[string]int{"payload": 3}, Thorough: map[string]int{"payload": 10}, Share: 1.00},
		},
		QuickBudget: 10 * time.Minute, ThoroughBudget: 45 * time.Minute, Assumptions: commonAssumptions,
	},
	"C02": {
		Harnesses: []HarnessDef{
			{Pkg: "cmd", Func: "VP_C02_WriteTree", Quick: map[string]int{"entries": 3, "depth": 2, "complen": 1, "symhash": 0}, Thorough: map[string]int{"entries": 4, "depth": 2, "complen": 2, "symhash": 0}, Share: 1.00},
			{Pkg: "cmd", Func: "VP_C02_WriteTree", Quick: map[string]int{"entries": 2, "depth": 2, "complen": 2, "symhash": 0}, Thorough: map[string]int{"entries": 3, "depth": 3, "complen": 2, "symhash": 1}, Share: 1.00},
			{Pkg: "cmd", Func: "VP_C02_WriteTree", Quick: map[string]int{"entries": 2, "depth": 2, "complen": 1, "symhash": 1, "freeDigest": 1}, Thorough: map[string]int{"entries": 2, "depth": 2, "complen": 1, "symhash": 1, "freeDigest": 1}, Share: 1.00},
			{Pkg: "cmd", Func: "VP_C02_Branches", Quick: map[string]int{"namelen": 1, "branches": 3}, Thorough: map[string]int{"namelen": 2, "branches": 3}, Share: 1.00},
			{Pkg: "cmd", Func: "VP_C02_Identity", Quick: map[string]int{"namelen": 2, "msglen": 2}, Thorough: map[string]int{"namelen": 3, "msglen": 3}, Share: 1.00},
			{Pkg: "cmd", Func: "VP_C02_Commit", Quick: map[string]int{"files": 2, "depth": 2, "complen": 1, "msglen": 1, "content": 1}, Thorough: map[string]int{"files": 2, "depth": 2, "complen": 2, "msglen": 3, "content": 2}, Share: 1.00},
		},
		QuickBudget: 10 * time.Minute, ThoroughBudget: 45 * time.Minute, Assumptions: commonAssumptions,
	},
	"C03": {
		Harnesses: []HarnessDef{
			{Pkg: "cmd", Func: "VP_C03_Step", Quick: map[string]int{"prefixes": 4}, Thorough: map[string]int{"prefixes": 5}, Share: 1.00},
			{Pkg: "cmd", Func: "VP_C03_SharedFanout", Quick: map[string]int{}, Thorough: map[string]int{}, Share: 1.00},
			{Pkg: "cmd", Func: "VP_C03_Two", Quick: map[string]int{"prefixes": 3, "prefixmin": 2, "symids": 0}, Thorough: map[string]int{"prefixes": 4, "prefixmin": 0, "symids": 0}, Share: 1.00},
		},
		QuickBudget: 10 * time.Minute, ThoroughBudget: 45 * time.Minute, Assumptions: commonAssumptions,
	},
	"C04": {
		Harnesses: []HarnessDef{
			{Pkg: "cmd", Func: "VP_C04_AddMulti", Quick: map[string]int{"args": 3}, Thorough: map[string]int{"args": 5}, Share: 1.00},
			{Pkg: "cmd", Func: "VP_C04_Add", Quick: map[string]int{"tracked": 2, "depth": 2, "complen": 1}, Thorough: map[string]int{"tracked": 2, "depth": 2, "complen": 2}, Share: 1.00},
			{Pkg: "cmd", Func: "VP_C04_Rm", Quick: map[string]int{"tracked": 2, "depth": 2, "complen": 2, "deepcomplen": 1, "kindchange": 1}, Thorough: map[string]int{"tracked": 2, "depth": 2, "complen": 2}, Share: 1.00},
			{Pkg: "cmd", Func: "VP_C04_KindChange", Quick: map[string]int{"complen": 1, "depth": 2}, Thorough: map[string]int{"complen": 2, "depth": 2}, Share: 1.00},
			{Pkg: "cmd", Func: "VP_C04_Three", Quick: map[string]int{}, Thorough: map[string]int{}, Share: 1.00},
			{Pkg: "cmd", Func: "VP_C04_ReAdd", Quick: map[string]int{"files": 2, "depth": 2, "complen": 1}, Thorough: map[string]int{"files": 2, "depth": 2, "complen": 2}, Share: 1.00},
		},
		QuickBudget: 10 * time.Minute, ThoroughBudget: 45 * time.Minute, Assumptions: commonAssumptions,
	},
	"C05": {
		Harnesses: []HarnessDef{
			{Pkg: "cmd", Func: "VP_C05_TreeRoundTrip", Quick: map[string]int{"entries": 2, "depth": 2, "complen": 2, "symhash": 1}, Thorough: map[string]int{"entries": 4, "depth": 2, "complen": 2, "symhash": 0}, Share: 1.00},
			{Pkg: "cmd", Func: "VP_C05_TreeRoundTrip", Quick: map[string]int{"entries": 2, "depth": 2, "complen": 1, "symhash": 1, "freeDigest": 1}, Thorough: map[string]int{"entries": 2, "depth": 2, "complen": 1, "symhash": 1, "freeDigest": 1}, Share: 1.00},
			{Pkg: "cmd", Func: "VP_C05_Cli", Quick: map[string]int{"files": 2, "depth": 2, "complen": 1}, Thorough: map[string]int{"files": 2, "depth": 2, "complen": 2}, Share: 1.00},
		},
		QuickBudget: 10 * time.Minute, ThoroughBudget: 45 * time.Minute, Assumptions: commonAssumptions,
	},
	"C06": {
		Harnesses: []HarnessDef{
			{Pkg: "internal/store", Func: "VP_C06_GetEntry", Quick: map[string]int{"entries": 3, "depth": 2, "complen": 2}, Thorough: map[string]int{"entries": 4, "depth": 2, "complen": 2}, Share: 1.00},
			{Pkg: "internal/store", Func: "VP_C06_IsDir", Quick: map[string]int{"entries": 3, "depth": 2, "complen": 2}, Thorough: map[string]int{"entries": 4, "depth": 2, "complen": 2}, Share: 1.00},
			{Pkg: "internal/store", Func: "VP_C06_ByDir", Quick: map[string]int{"entries": 3, "depth": 2, "complen": 2}, Thorough: map[string]int{"entries": 4, "depth": 2, "complen": 2}, Share: 1.00},
			{Pkg: "internal/store", Func: "VP_C06_WriteRead", Quick: map[string]int{"entries": 2, "depth": 2, "complen": 2}, Thorough: map[string]int{"entries": 5, "depth": 2, "complen": 2}, Share: 1.00},
			{Pkg: "internal/store", Func: "VP_C06_Big", Quick: map[string]int{"bigentries": 170}, Thorough: map[string]int{"bigentries": 2600, "maxBackEdges": 40000}, Share: 1.00},
			{Pkg: "internal/store", Func: "VP_C06_Update", Quick: map[string]int{"entries": 2, "depth": 2, "complen": 2}, Thorough: map[string]int{"entries": 4, "depth": 2, "complen": 2}, Share: 1.00},
			{Pkg: "internal/store", Func: "VP_C06_Delete", Quick: map[string]int{"entries": 2, "depth": 2, "complen": 2}, Thorough: map[string]int{"entries": 4, "depth": 2, "complen": 2}, Share: 1.00},
		},
		QuickBudget: 10 * time.Minute, ThoroughBudget: 45 * time.Minute, Assumptions: commonAssumptions,
	},
	"C07": {
		Harnesses: []HarnessDef{
			{Pkg: "cmd", Func: "VP_C07_Diff", Quick: map[string]int{"pool": 2, "depth": 2, "complen": 2, "symhash": 0}, Thorough: map[string]int{"pool": 3, "depth": 2, "complen": 2, "symhash": 0}, Share: 1.00},
			{Pkg: "cmd", Func: "VP_Multi3", Quick: map[string]int{}, Thorough: map[string]int{}, Share: 1.00},
			{Pkg: "cmd", Func: "VP_C07_EmptyFirst", Quick: map[string]int{}, Thorough: map[string]int{}, Share: 1.00},
			{Pkg: "cmd", Func: "VP_C07_KindChange", Quick: map[string]int{"complen": 1, "depth": 2}, Thorough: map[string]int{"complen": 2, "depth": 2}, Share: 1.00},
			{Pkg: "cmd", Func: "VP_C07_ResetStatus", Quick: map[string]int{"depth": 2, "complen": 2, "deepcomplen": 1, "concontent": 1, "asym": 1}, Thorough: map[string]int{"depth": 2, "complen": 2, "concontent": 1}, Share: 1.00},
			{Pkg: "cmd", Func: "VP_C07_StatusStaged", Quick: map[string]int{"tracked": 1, "depth": 2, "complen": 2}, Thorough: map[string]int{"tracked": 1, "depth": 2, "complen": 2}, Share: 1.00},
			{Pkg: "cmd", Func: "VP_C07_StatusStaged", Quick: map[string]int{"tracked": 2, "depth": 1, "complen": 1, "symfiles": 1, "smallcontent": 1}, Thorough: map[string]int{"tracked": 2, "depth": 2, "complen": 1, "symfiles": 1, "smallcontent": 1}, Share: 1.00},
			{Pkg: "cmd", Func: "VP_C07_StatusStaged", ThoroughOnly: true, Thorough: map[string]int{"tracked": 2, "depth": 1, "complen": 2, "symfiles": 1, "smallcontent": 1}, Share: 1.00},
		},
		QuickBudget: 10 * time.Minute, ThoroughBudget: 45 * time.Minute, Assumptions: commonAssumptions,
	},
	"C08": {
		Harnesses: []HarnessDef{
			{Pkg: "cmd", Func: "VP_C08_Positions", Quick: map[string]int{"commits": 11}, Thorough: map[string]int{"commits": 25}, Share: 1.00},
			{Pkg: "cmd", Func: "VP_Multi3", Quick: map[string]int{}, Thorough: map[string]int{}, Share: 1.00},
			{Pkg: "cmd", Func: "VP_C08_Twins", Quick: map[string]int{"complen": 1}, Thorough: map[string]int{"complen": 2}, Share: 1.00},
			{Pkg: "cmd", Func: "VP_C08_Reset", Quick: map[string]int{"complen": 1, "junk": 1, "stagedextra": 0}, Thorough: map[string]int{"complen": 1, "junk": 3, "stagedextra": 0}, Share: 1.00},
			{Pkg: "cmd", Func: "VP_C08_Reset", Quick: map[string]int{"complen": 1, "junk": 1, "stagedextra": 1, "histories": 1}, Thorough: map[string]int{"complen": 1, "junk": 1, "stagedextra": 1, "histories": 3}, Share: 1.00},
		},
		QuickBudget: 10 * time.Minute, ThoroughBudget: 45 * time.Minute, Assumptions: commonAssumptions,
	},
	"C09": {
		Harnesses: []HarnessDef{
			{Pkg: "cmd", Func: "VP_C09_Restore", Quick: map[string]int{"tracked": 2, "depth": 2, "complen": 2, "deepcomplen": 1}, Thorough: map[string]int{"tracked": 2, "depth": 2, "complen": 2}, Share: 1.00},
			{Pkg: "cmd", Func: "VP_C04_Three", Quick: map[string]int{}, Thorough: map[string]int{}, Share: 1.00},
			{Pkg: "cmd", Func: "VP_Multi3", Quick: map[string]int{}, Thorough: map[string]int{}, Share: 1.00},
			{Pkg: "cmd", Func: "VP_C09_RestoreMulti", Quick: map[string]int{}, Thorough: map[string]int{}, Share: 1.00},
			{Pkg: "cmd", Func: "VP_C09_RestoreStaged", Quick: map[string]int{"files": 1, "depth": 2, "complen": 1}, Thorough: map[string]int{"files": 2, "depth": 2, "complen": 1}, Share: 1.00},
		},
		QuickBudget: 10 * time.Minute, ThoroughBudget: 45 * time.Minute, Assumptions: commonAssumptions,
	},
	"C10": {
		Harnesses: []HarnessDef{
			{Pkg: "internal/store", Func: "VP_C10_Pos", Quick: map[string]int{"branches": 3, "namelen": 2}, Thorough: map[string]int{"branches": 5, "namelen": 3}, Share: 1.00},
			{Pkg: "internal/store", Func: "VP_C10_Add", Quick: map[string]int{"branches": 3, "namelen": 2}, Thorough: map[string]int{"branches": 4, "namelen": 3}, Share: 1.00},
			{Pkg: "internal/store", Func: "VP_C10_Rename", Quick: map[string]int{"branches": 3, "namelen": 2}, Thorough: map[string]int{"branches": 4, "namelen": 3}, Share: 1.00},
			{Pkg: "internal/store", Func: "VP_C10_Delete", Quick: map[string]int{"branches": 3, "namelen": 2}, Thorough: map[string]int{"branches": 4, "namelen": 3}, Share: 1.00},
			{Pkg: "internal/store", Func: "VP_C10_UpdateHash", Quick: map[string]int{"branches": 3, "namelen": 2}, Thorough: map[string]int{"branches": 4, "namelen": 3}, Share: 1.00},
			{Pkg: "internal/store", Func: "VP_C10_Reload", Quick: map[string]int{"branches": 3, "namelen": 2}, Thorough: map[string]int{"branches": 4, "namelen": 3}, Share: 1.00},
			{Pkg: "cmd", Func: "VP_C10_Cli", Quick: map[string]int{"namelen": 1, "qlen": 2}, Thorough: map[string]int{"namelen": 2, "qlen": 2}, Share: 1.00},
		},
		QuickBudget: 10 * time.Minute, ThoroughBudget: 45 * time.Minute, Assumptions: commonAssumptions,
	},
	"C11": {
		Harnesses: []HarnessDef{
			{Pkg: "internal/store", Func: "VP_C11_RoundTrip", Quick: map[string]int{"records": 1, "msglen": 3, "namelen": 2}, Thorough: map[string]int{"records": 2, "msglen": 3, "namelen": 3}, Share: 1.00},
			{Pkg: "cmd", Func: "VP_C11_Cli", Quick: map[string]int{"msglen": 2, "maxBackEdges": 200000}, Thorough: map[string]int{"msglen": 5, "longline": 14000, "maxBackEdges": 3000000}, Share: 1.00},
		},
		QuickBudget: 10 * time.Minute, ThoroughBudget: 45 * time.Minute, Assumptions: commonAssumptions,
	},
	"C12": {
		Harnesses: []HarnessDef{
			{Pkg: "internal/object", Func: "VP_C12_Sign", Quick: map[string]int{"namelen": 2, "unixdigits": 10}, Thorough: map[string]int{"namelen": 5, "unixdigits": 10}, Share: 1.00},
			{Pkg: "cmd", Func: "VP_C14_Fields", Quick: map[string]int{"biglen": 100000, "msglen": 1, "maxBackEdges": 3000000}, Thorough: map[string]int{"biglen": 131000, "msglen": 2, "maxBackEdges": 4000000}, Share: 1.00},
			{Pkg: "cmd", Func: "VP_C12_Cli", Quick: map[string]int{"msglen": 1}, Thorough: map[string]int{"msglen": 5}, Share: 1.00},
		},
		QuickBudget: 10 * time.Minute, ThoroughBudget: 45 * time.Minute, Assumptions: commonAssumptions,
	},
	"C13": {
		Harnesses: []HarnessDef{
			{Pkg: "cmd", Func: "VP_Multi3", Quick: map[string]int{}, Thorough: map[string]int{}, Share: 1.00},
			{Pkg: "cmd", Func: "VP_C13_Ignore", Quick: map[string]int{"complen": 1}, Thorough: map[string]int{"complen": 2}, Share: 1.00},
			{Pkg: "cmd", Func: "VP_C13_KindChange", Quick: map[string]int{"complen": 1, "depth": 2}, Thorough: map[string]int{"complen": 2, "depth": 2}, Share: 1.00},
			{Pkg: "cmd", Func: "VP_C13_Status", Quick: map[string]int{"tracked": 2, "depth": 2, "complen": 2, "deepcomplen": 1, "contentfixed": 1, "asym": 1, "udepth": 1}, Thorough: map[string]int{"tracked": 2, "depth": 2, "complen": 2}, Share: 1.00},
		},
		QuickBudget: 10 * time.Minute, ThoroughBudget: 45 * time.Minute, Assumptions: commonAssumptions,
	},
	"C14": {
		Harnesses: []HarnessDef{
			{Pkg: "cmd", Func: "VP_C14_Walk", Quick: map[string]int{"chain": 20}, Thorough: map[string]int{"chain": 200}, Share: 1.00},
			{Pkg: "cmd", Func: "VP_C14_Fields", Quick: map[string]int{"biglen": 100000, "msglen": 1, "maxBackEdges": 3000000}, Thorough: map[string]int{"biglen": 131000, "msglen": 2, "maxBackEdges": 4000000}, Share: 1.00},
			{Pkg: "cmd", Func: "VP_C14_Log", Quick: map[string]int{"commits": 4}, Thorough: map[string]int{"commits": 9}, Share: 1.00},
		},
		QuickBudget: 10 * time.Minute, ThoroughBudget: 45 * time.Minute, Assumptions: commonAssumptions,
	},
	"C15": {
		Harnesses: []HarnessDef{
			{Pkg: "cmd", Func: "VP_C15_Crash", Quick: map[string]int{"scenarios": 32, "maxmut": 40}, Thorough: map[string]int{"scenarios": 32, "maxmut": 40}, Share: 1.00},
		},
		QuickBudget: 10 * time.Minute, ThoroughBudget: 45 * time.Minute, Assumptions: commonAssumptions,
	},
	"C16": {
		Harnesses: []HarnessDef{
			{Pkg: "cmd", Func: "VP_C16_Fault", Quick: map[string]int{"scenarios": 32, "maxops": 120}, Thorough: map[string]int{"scenarios": 32, "maxops": 120}, Share: 1.00},
		},
		QuickBudget: 10 * time.Minute, ThoroughBudget: 45 * time.Minute, Assumptions: commonAssumptions,
	},
	"C17": {
		Harnesses: []HarnessDef{
			{Pkg: "cmd", Func: "VP_C17_Add", Quick: map[string]int{"complen": 1}, Thorough: map[string]int{"complen": 1}, Share: 1.00},
			{Pkg: "cmd", Func: "VP_C17_Add", ThoroughOnly: true, Thorough: map[string]int{"complen": 2, "neighbour": 0}, Share: 1.00},
			{Pkg: "cmd", Func: "VP_C17_DottedExt", Quick: map[string]int{}, Thorough: map[string]int{}, Share: 1.00},
			{Pkg: "cmd", Func: "VP_C17_LateIgnore", Quick: map[string]int{}, Thorough: map[string]int{}, Share: 1.00},
			{Pkg: "cmd", Func: "VP_C17_Forms", Quick: map[string]int{"complen": 1}, Thorough: map[string]int{"complen": 2}, Share: 1.00},
			{Pkg: "cmd", Func: "VP_C17_Semantics", Quick: map[string]int{}, Thorough: map[string]int{}, Share: 1.00},
		},
		QuickBudget: 10 * time.Minute, ThoroughBudget: 45 * time.Minute, Assumptions: commonAssumptions,
	},
	"C18": {
		Harnesses: []HarnessDef{
			{Pkg: "cmd", Func: "VP_C18_AnyCmd", ThoroughOnly: true, Thorough: map[string]int{"statemask": 511, "maxargs": 3, "arglen": 2, "followup": 0}, Share: 1.00},
			{Pkg: "cmd", Func: "VP_C18_AnyCmd", Quick: map[string]int{"statemask": 511, "maxargs": 2, "arglen": 1}, Thorough: map[string]int{"statemask": 511, "maxargs": 2, "arglen": 3}, Share: 1.00},
		},
		QuickBudget: 10 * time.Minute, ThoroughBudget: 45 * time.Minute, Assumptions: commonAssumptions,
	},
	"C19": {
		Harnesses: []HarnessDef{
			{Pkg: "internal/object", Func: "VP_C19_ReadHeader", Quick: map[string]int{"n": 6}, Thorough: map[string]int{"n": 12}, Share: 1.00},
			{Pkg: "internal/object", Func: "VP_C19_GetObject", Quick: map[string]int{"n": 5}, Thorough: map[string]int{"n": 9}, Share: 1.00},
			{Pkg: "internal/object", Func: "VP_C19_ValidUnderName", Quick: map[string]int{"n": 5, "shortReads": 1}, Thorough: map[string]int{"n": 12, "shortReads": 1}, Share: 1.00},
			{Pkg: "internal/object", Func: "VP_C19_RawObject", Quick: map[string]int{"rawZlibMax": 6}, Thorough: map[string]int{"rawZlibMax": 10}, Share: 1.00},
			{Pkg: "internal/object", Func: "VP_C19_WalkTree", Quick: map[string]int{"n": 5}, Thorough: map[string]int{"n": 9}, Share: 1.00},
			{Pkg: "internal/object", Func: "VP_C19_NewCommit", Quick: map[string]int{"n": 5}, Thorough: map[string]int{"n": 9}, Share: 1.00},
			{Pkg: "internal/object", Func: "VP_C19_ReadSign", Quick: map[string]int{"n": 7}, Thorough: map[string]int{"n": 12}, Share: 1.00},
			{Pkg: "internal/store", Func: "VP_C19_IndexRead", Quick: map[string]int{"n": 8}, Thorough: map[string]int{"n": 16}, Share: 1.00},
			{Pkg: "internal/store", Func: "VP_C19_ConfigLoad", Quick: map[string]int{"n": 5}, Thorough: map[string]int{"n": 8}, Share: 1.00},
			{Pkg: "internal/store", Func: "VP_C19_NewHead", Quick: map[string]int{"n": 5}, Thorough: map[string]int{"n": 9}, Share: 1.00},
			{Pkg: "internal/store", Func: "VP_C19_RefsLoad", Quick: map[string]int{"n": 5}, Thorough: map[string]int{"n": 10}, Share: 1.00},
			{Pkg: "internal/store", Func: "VP_C19_MutatedFiles", Quick: map[string]int{}, Thorough: map[string]int{}, Share: 1.00},
			{Pkg: "internal/object", Func: "VP_C19_MutatedObjects", Quick: map[string]int{}, Thorough: map[string]int{}, Share: 1.00},
			{Pkg: "internal/object", Func: "VP_C19_LongCommit", Quick: map[string]int{"maxBackEdges": 3000000}, Thorough: map[string]int{"maxBackEdges": 3000000}, Share: 1.00},
			{Pkg: "cmd", Func: "VP_C19_BranchFileCli", Quick: map[string]int{"stray": 1}, Thorough: map[string]int{"stray": 2}, Share: 1.00},
			{Pkg: "internal/store", Func: "VP_C19_ReflogLoad", Quick: map[string]int{"n": 5}, Thorough: map[string]int{"n": 9}, Share: 1.00},
		},
		QuickBudget: 10 * time.Minute, ThoroughBudget: 45 * time.Minute, Assumptions: commonAssumptions,
	},
	"C20": {
		Harnesses: []HarnessDef{
			{Pkg: "internal/store", Func: "VP_C20_WriteLoad", Quick: map[string]int{"pairs": 2, "wordlen": 2, "vallen": 4}, Thorough: map[string]int{"pairs": 3, "wordlen": 2, "vallen": 4}, Share: 1.00},
			{Pkg: "internal/store", Func: "VP_C20_Precedence", Quick: map[string]int{}, Thorough: map[string]int{}, Share: 1.00},
			{Pkg: "cmd", Func: "VP_C20_Cli", Quick: map[string]int{"writes": 2}, Thorough: map[string]int{"writes": 4}, Share: 1.00},
		},
		QuickBudget: 10 * time.Minute, ThoroughBudget: 45 * time.Minute, Assumptions: commonAssumptions,
	},
}
