package main

// Terms: hash-consed QF_BV expressions with an eager simplifier.
// Width 0 = Bool; widths 1..64 = bit-vectors (constants held in uint64).

import (
	"fmt"
	"strings"
)

type Op uint8

const (
	OpConst Op = iota
	OpVar
	OpNot
	OpAnd
	OpOr
	OpEq
	OpIte
	OpAdd
	OpSub
	OpMul
	OpUDiv
	OpURem
	OpSDiv
	OpSRem
	OpBAnd
	OpBOr
	OpBXor
	OpShl
	OpLShr
	OpAShr
	OpUlt
	OpUle
	OpSlt
	OpSle
	OpExtract // k = hi<<8|lo
	OpZext    // to width w
	OpSext
)

var opNames = map[Op]string{OpNot: "not", OpAnd: "and", OpOr: "or", OpEq: "=", OpIte: "ite", OpAdd: "bvadd", OpSub: "bvsub",
	OpMul: "bvmul", OpUDiv: "bvudiv", OpURem: "bvurem", OpSDiv: "bvsdiv", OpSRem: "bvsrem", OpBAnd: "bvand", OpBOr: "bvor",
	OpBXor: "bvxor", OpShl: "bvshl", OpLShr: "bvlshr", OpAShr: "bvashr", OpUlt: "bvult", OpUle: "bvule", OpSlt: "bvslt", OpSle: "bvsle"}

type Term struct {
	op      Op
	w       uint8 // 0 = Bool
	a, b, c *Term
	k       uint64
	name    string
	id      uint32
	dom     *[4]uint64 // for 8-bit vars: allowed byte values (also asserted in SMT)
	dec     []*Term    // optional decimal provenance: value == Horner(dec digits), canonical
}

type termKey struct {
	op      Op
	w       uint8
	a, b, c uint32
	k       uint64
}

type Store struct {
	bytes  [256]*Term
	vars   map[string]*Term
	tab    map[termKey]*Term
	nextID uint32
	True   *Term
	False  *Term
	nvars  int
}

func NewStore() *Store {
	s := &Store{tab: map[termKey]*Term{}, vars: map[string]*Term{}, nextID: 1}
	s.True = s.mk(OpConst, 0, nil, nil, nil, 1, "")
	s.False = s.mk(OpConst, 0, nil, nil, nil, 0, "")
	for i := range s.bytes {
		s.bytes[i] = s.mk(OpConst, 8, nil, nil, nil, uint64(i), "")
	}
	return s
}

func tid(t *Term) uint32 {
	if t == nil {
		return 0
	}
	return t.id
}

func (s *Store) mk(op Op, w uint8, a, b, c *Term, k uint64, name string) *Term {
	if op == OpVar {
		if t, ok := s.vars[name]; ok {
			return t
		}
		t := &Term{op: op, w: w, name: name, id: s.nextID}
		s.nextID++
		s.vars[name] = t
		return t
	}
	key := termKey{op, w, tid(a), tid(b), tid(c), k}
	if t, ok := s.tab[key]; ok {
		return t
	}
	t := &Term{op: op, w: w, a: a, b: b, c: c, k: k, id: s.nextID}
	s.nextID++
	s.tab[key] = t
	return t
}

func mask(w uint8) uint64 {
	if w >= 64 {
		return ^uint64(0)
	}
	return (uint64(1) << w) - 1
}

func (s *Store) Const(w uint8, v uint64) *Term {
	if w == 0 {
		if v != 0 {
			return s.True
		}
		return s.False
	}
	if w == 8 {
		return s.bytes[v&255]
	}
	return s.mk(OpConst, w, nil, nil, nil, v&mask(w), "")
}
func (s *Store) Bool(b bool) *Term {
	if b {
		return s.True
	}
	return s.False
}
func (s *Store) Var(name string, w uint8) *Term {
	t := s.mk(OpVar, w, nil, nil, nil, 0, name)
	return t
}

func (t *Term) IsConst() bool { return t.op == OpConst }
func (t *Term) IsTrue() bool  { return t.op == OpConst && t.w == 0 && t.k == 1 }
func (t *Term) IsFalse() bool { return t.op == OpConst && t.w == 0 && t.k == 0 }

// signed value of constant
func sval(w uint8, v uint64) int64 {
	if w >= 64 {
		return int64(v)
	}
	if v&(uint64(1)<<(w-1)) != 0 {
		return int64(v | ^mask(w))
	}
	return int64(v)
}

// constTree: t is a constant or an ite whose leaves are all constants (depth-bounded).
func constTree(t *Term, depth int) bool {
	if t.op == OpConst {
		return true
	}
	if t.op == OpIte && depth > 0 {
		return constTree(t.b, depth-1) && constTree(t.c, depth-1)
	}
	return false
}

// mapLeaves rebuilds an ite tree applying f to each constant leaf.
func (s *Store) mapLeaves(t *Term, f func(k *Term) *Term) *Term {
	if t.op == OpConst {
		return f(t)
	}
	return s.Ite(t.a, s.mapLeaves(t.b, f), s.mapLeaves(t.c, f))
}

const liftDepth = 6

func (s *Store) Not(a *Term) *Term {
	if a.op == OpConst {
		return s.Bool(a.k == 0)
	}
	if a.op == OpNot {
		return a.a
	}
	return s.mk(OpNot, 0, a, nil, nil, 0, "")
}

func (s *Store) And(a, b *Term) *Term {
	if a.op == OpConst {
		if a.k == 0 {
			return s.False
		}
		return b
	}
	if b.op == OpConst {
		if b.k == 0 {
			return s.False
		}
		return a
	}
	if a == b {
		return a
	}
	if (a.op == OpNot && a.a == b) || (b.op == OpNot && b.a == a) {
		return s.False
	}
	if a.id > b.id {
		a, b = b, a
	}
	return s.mk(OpAnd, 0, a, b, nil, 0, "")
}

func (s *Store) Or(a, b *Term) *Term {
	if a.op == OpConst {
		if a.k == 1 {
			return s.True
		}
		return b
	}
	if b.op == OpConst {
		if b.k == 1 {
			return s.True
		}
		return a
	}
	if a == b {
		return a
	}
	if (a.op == OpNot && a.a == b) || (b.op == OpNot && b.a == a) {
		return s.True
	}
	if a.id > b.id {
		a, b = b, a
	}
	return s.mk(OpOr, 0, a, b, nil, 0, "")
}

func (s *Store) AndN(ts ...*Term) *Term {
	r := s.True
	for _, t := range ts {
		r = s.And(r, t)
	}
	return r
}
func (s *Store) OrN(ts ...*Term) *Term {
	r := s.False
	for _, t := range ts {
		r = s.Or(r, t)
	}
	return r
}
func (s *Store) Implies(a, b *Term) *Term { return s.Or(s.Not(a), b) }

func inDom(d *[4]uint64, v uint64) bool { return d[(v>>6)&3]&(uint64(1)<<(v&63)) != 0 }

func (s *Store) Eq(a, b *Term) *Term {
	if a == b {
		return s.True
	}
	if a.w != b.w {
		panic(fmt.Sprintf("Eq width mismatch %d %d: %s vs %s", a.w, b.w, a, b))
	}
	if a.op == OpConst && b.op == OpConst {
		return s.Bool(a.k == b.k)
	}
	if a.op == OpConst {
		a, b = b, a
	}
	if b.op == OpConst {
		if a.w == 0 {
			if b.k == 1 {
				return a
			}
			return s.Not(a)
		}
		if a.op == OpIte && a.w != 0 && constTree(a, liftDepth) {
			return s.mapLeaves(a, func(k *Term) *Term { return s.Bool(k.k == b.k) })
		}
		switch a.op {
		case OpVar:
			if a.dom != nil && a.w == 8 && !inDom(a.dom, b.k) {
				return s.False
			}
		case OpZext:
			if b.k > mask(a.a.w) {
				return s.False
			}
			return s.Eq(a.a, s.Const(a.a.w, b.k))
		case OpIte:
			// ite(c, k1, k2) == k
			if a.b.op == OpConst && a.c.op == OpConst {
				if a.b.k == b.k && a.c.k != b.k {
					return a.a
				}
				if a.b.k != b.k && a.c.k == b.k {
					return s.Not(a.a)
				}
				if a.b.k != b.k && a.c.k != b.k {
					return s.False
				}
			}
		case OpAdd:
			if a.b.op == OpConst {
				return s.Eq(a.a, s.Const(a.w, b.k-a.b.k))
			}
		}
	}
	if a.op == OpZext && b.op == OpZext && a.a.w == b.a.w {
		return s.Eq(a.a, b.a)
	}
	if a.id > b.id {
		a, b = b, a
	}
	return s.mk(OpEq, 0, a, b, nil, 0, "")
}

func (s *Store) Ite(c, a, b *Term) *Term {
	if c.op == OpConst {
		if c.k == 1 {
			return a
		}
		return b
	}
	if a == b {
		return a
	}
	if c.op == OpNot {
		return s.Ite(c.a, b, a)
	}
	// ite(c, ite(c,x,y), z) = ite(c,x,z);  ite(c, x, ite(c,y,z)) = ite(c,x,z)
	if a.op == OpIte && a.a == c {
		return s.Ite(c, a.b, b)
	}
	if b.op == OpIte && b.a == c {
		return s.Ite(c, a, b.c)
	}
	if a.w == 0 {
		if a.IsTrue() && b.IsFalse() {
			return c
		}
		if a.IsFalse() && b.IsTrue() {
			return s.Not(c)
		}
		if a.IsTrue() {
			return s.Or(c, b)
		}
		if a.IsFalse() {
			return s.And(s.Not(c), b)
		}
		if b.IsTrue() {
			return s.Or(s.Not(c), a)
		}
		if b.IsFalse() {
			return s.And(c, a)
		}
	}
	return s.mk(OpIte, a.w, c, a, b, 0, "")
}

func (s *Store) Bin(op Op, a, b *Term) *Term {
	if a.w != b.w {
		panic(fmt.Sprintf("Bin %s width mismatch %d %d", opNames[op], a.w, b.w))
	}
	w := a.w
	if a.op == OpConst && b.op == OpConst {
		return s.Const(w, foldBin(op, w, a.k, b.k))
	}
	if b.op == OpConst && a.op == OpIte && constTree(a, liftDepth) {
		return s.mapLeaves(a, func(k *Term) *Term { return s.Const(w, foldBin(op, w, k.k, b.k)) })
	}
	if a.op == OpConst && b.op == OpIte && constTree(b, liftDepth) {
		return s.mapLeaves(b, func(k *Term) *Term { return s.Const(w, foldBin(op, w, a.k, k.k)) })
	}
	switch op {
	case OpAdd:
		if a.op == OpConst {
			a, b = b, a
		}
		if b.op == OpConst && b.k == 0 {
			return a
		}
		if b.op == OpConst && a.op == OpAdd && a.b.op == OpConst {
			return s.Bin(OpAdd, a.a, s.Const(w, a.b.k+b.k))
		}
	case OpSub:
		if b.op == OpConst {
			if b.k == 0 {
				return a
			}
			return s.Bin(OpAdd, a, s.Const(w, -b.k))
		}
		if a == b {
			return s.Const(w, 0)
		}
	case OpMul:
		if a.op == OpConst {
			a, b = b, a
		}
		if b.op == OpConst {
			if b.k == 0 {
				return b
			}
			if b.k == 1 {
				return a
			}
		}
	case OpBAnd:
		if a.op == OpConst {
			a, b = b, a
		}
		if b.op == OpConst {
			if b.k == 0 {
				return b
			}
			if b.k == mask(w) {
				return a
			}
		}
	case OpBOr, OpBXor:
		if a.op == OpConst {
			a, b = b, a
		}
		if b.op == OpConst && b.k == 0 {
			return a
		}
	case OpShl, OpLShr, OpAShr:
		if b.op == OpConst && b.k == 0 {
			return a
		}
	}
	return s.mk(op, w, a, b, nil, 0, "")
}

func (s *Store) Cmp(op Op, a, b *Term) *Term {
	if a.w != b.w {
		panic(fmt.Sprintf("Cmp width mismatch %d %d", a.w, b.w))
	}
	w := a.w
	if a.op == OpConst && b.op == OpConst {
		switch op {
		case OpUlt:
			return s.Bool(a.k < b.k)
		case OpUle:
			return s.Bool(a.k <= b.k)
		case OpSlt:
			return s.Bool(sval(w, a.k) < sval(w, b.k))
		case OpSle:
			return s.Bool(sval(w, a.k) <= sval(w, b.k))
		}
	}
	if a == b {
		return s.Bool(op == OpUle || op == OpSle)
	}
	if b.op == OpConst && a.op == OpIte && constTree(a, liftDepth) {
		return s.mapLeaves(a, func(k *Term) *Term { return s.Cmp(op, k, b) })
	}
	if a.op == OpConst && b.op == OpIte && constTree(b, liftDepth) {
		return s.mapLeaves(b, func(k *Term) *Term { return s.Cmp(op, a, k) })
	}
	// zext(x) <u const
	if a.op == OpZext && b.op == OpConst && a.a.w < w {
		inner := a.a
		switch op {
		case OpUlt, OpSlt:
			if op == OpSlt && sval(w, b.k) < 0 {
				return s.False
			}
			if b.k > mask(inner.w) {
				return s.True
			}
			return s.Cmp(OpUlt, inner, s.Const(inner.w, b.k))
		case OpUle, OpSle:
			if op == OpSle && sval(w, b.k) < 0 {
				return s.False
			}
			if b.k >= mask(inner.w) {
				return s.True
			}
			return s.Cmp(OpUle, inner, s.Const(inner.w, b.k))
		}
	}
	if b.op == OpZext && a.op == OpConst && b.a.w < w {
		inner := b.a
		switch op {
		case OpUlt, OpSlt:
			if op == OpSlt && sval(w, a.k) < 0 {
				return s.True
			}
			if a.k >= mask(inner.w) {
				return s.False
			}
			return s.Cmp(OpUlt, s.Const(inner.w, a.k), inner)
		case OpUle, OpSle:
			if op == OpSle && sval(w, a.k) < 0 {
				return s.True
			}
			if a.k > mask(inner.w) {
				return s.False
			}
			return s.Cmp(OpUle, s.Const(inner.w, a.k), inner)
		}
	}
	if a.op == OpZext && b.op == OpZext && a.a.w == b.a.w && a.a.w < w {
		switch op {
		case OpSlt:
			op = OpUlt
		case OpSle:
			op = OpUle
		}
		return s.Cmp(op, a.a, b.a)
	}
	// domain-based decisions for byte variables against constants
	if a.op == OpVar && a.dom != nil && b.op == OpConst && (op == OpUlt || op == OpUle) {
		all, none := true, true
		for v := uint64(0); v < 256; v++ {
			if inDom(a.dom, v) {
				var r bool
				if op == OpUlt {
					r = v < b.k
				} else {
					r = v <= b.k
				}
				if r {
					none = false
				} else {
					all = false
				}
			}
		}
		if all {
			return s.True
		}
		if none {
			return s.False
		}
	}
	if b.op == OpVar && b.dom != nil && a.op == OpConst && (op == OpUlt || op == OpUle) {
		all, none := true, true
		for v := uint64(0); v < 256; v++ {
			if inDom(b.dom, v) {
				var r bool
				if op == OpUlt {
					r = a.k < v
				} else {
					r = a.k <= v
				}
				if r {
					none = false
				} else {
					all = false
				}
			}
		}
		if all {
			return s.True
		}
		if none {
			return s.False
		}
	}
	return s.mk(op, 0, a, b, nil, 0, "")
}

func (s *Store) Extract(a *Term, hi, lo uint8) *Term {
	if lo == 0 && hi == a.w-1 {
		return a
	}
	nw := hi - lo + 1
	if a.op == OpConst {
		return s.Const(nw, a.k>>lo)
	}
	if a.op == OpIte && constTree(a, liftDepth) {
		return s.mapLeaves(a, func(k *Term) *Term { return s.Const(nw, k.k>>lo) })
	}
	if a.op == OpZext || a.op == OpSext {
		if hi < a.a.w {
			return s.Extract(a.a, hi, lo)
		}
		if a.op == OpZext && lo >= a.a.w {
			return s.Const(nw, 0)
		}
	}
	return s.mk(OpExtract, nw, a, nil, nil, uint64(hi)<<8|uint64(lo), "")
}

func (s *Store) Zext(a *Term, w uint8) *Term {
	if a.w == w {
		return a
	}
	if a.w > w {
		return s.Extract(a, w-1, 0)
	}
	if a.op == OpConst {
		return s.Const(w, a.k)
	}
	if a.op == OpIte && constTree(a, liftDepth) {
		return s.mapLeaves(a, func(k *Term) *Term { return s.Const(w, k.k) })
	}
	if a.op == OpZext {
		return s.Zext(a.a, w)
	}
	return s.mk(OpZext, w, a, nil, nil, 0, "")
}

func (s *Store) Sext(a *Term, w uint8) *Term {
	if a.w == w {
		return a
	}
	if a.w > w {
		return s.Extract(a, w-1, 0)
	}
	if a.op == OpConst {
		return s.Const(w, uint64(sval(a.w, a.k)))
	}
	if a.op == OpZext { // zero-extended value is non-negative
		return s.Zext(a.a, w)
	}
	return s.mk(OpSext, w, a, nil, nil, 0, "")
}

// ---------------------------------------------------------------------------
// evaluation under a model (var name -> value)

type Model map[string]uint64

func (t *Term) Eval(m Model, memo map[*Term]uint64) uint64 {
	if t.op == OpConst {
		return t.k
	}
	if v, ok := memo[t]; ok {
		return v
	}
	var r uint64
	switch t.op {
	case OpVar:
		r = m[t.name] & maskB(t.w)
	case OpNot:
		r = 1 - t.a.Eval(m, memo)
	case OpAnd:
		if t.a.Eval(m, memo) == 1 && t.b.Eval(m, memo) == 1 {
			r = 1
		}
	case OpOr:
		if t.a.Eval(m, memo) == 1 || t.b.Eval(m, memo) == 1 {
			r = 1
		}
	case OpEq:
		if t.a.Eval(m, memo) == t.b.Eval(m, memo) {
			r = 1
		}
	case OpIte:
		if t.a.Eval(m, memo) == 1 {
			r = t.b.Eval(m, memo)
		} else {
			r = t.c.Eval(m, memo)
		}
	case OpUlt, OpUle, OpSlt, OpSle:
		x, y := t.a.Eval(m, memo), t.b.Eval(m, memo)
		w := t.a.w
		var b bool
		switch t.op {
		case OpUlt:
			b = x < y
		case OpUle:
			b = x <= y
		case OpSlt:
			b = sval(w, x) < sval(w, y)
		case OpSle:
			b = sval(w, x) <= sval(w, y)
		}
		if b {
			r = 1
		}
	case OpExtract:
		hi, lo := uint8(t.k>>8), uint8(t.k&255)
		r = (t.a.Eval(m, memo) >> lo) & mask(hi-lo+1)
	case OpZext:
		r = t.a.Eval(m, memo)
	case OpSext:
		r = uint64(sval(t.a.w, t.a.Eval(m, memo))) & mask(t.w)
	default:
		// binary arithmetic: reuse constant folder
		x, y := t.a.Eval(m, memo), t.b.Eval(m, memo)
		r = evalBin(t.op, t.w, x, y)
	}
	memo[t] = r
	return r
}

func maskB(w uint8) uint64 {
	if w == 0 {
		return 1
	}
	return mask(w)
}

func evalBin(op Op, w uint8, x, y uint64) uint64 { return foldBin(op, w, x&mask(w), y&mask(w)) }

func foldBin(op Op, w uint8, x, y uint64) uint64 {
	var r uint64
	switch op {
	case OpAdd:
		r = x + y
	case OpSub:
		r = x - y
	case OpMul:
		r = x * y
	case OpUDiv:
		if y == 0 {
			r = mask(w)
		} else {
			r = x / y
		}
	case OpURem:
		if y == 0 {
			r = x
		} else {
			r = x % y
		}
	case OpSDiv:
		if y == 0 {
			if sval(w, x) < 0 {
				r = 1
			} else {
				r = mask(w)
			}
		} else {
			sy := sval(w, y)
			sx := sval(w, x)
			if sy == -1 {
				r = uint64(-sx)
			} else {
				r = uint64(sx / sy)
			}
		}
	case OpSRem:
		if y == 0 {
			r = x
		} else {
			sy := sval(w, y)
			sx := sval(w, x)
			if sy == -1 {
				r = 0
			} else {
				r = uint64(sx % sy)
			}
		}
	case OpBAnd:
		r = x & y
	case OpBOr:
		r = x | y
	case OpBXor:
		r = x ^ y
	case OpShl:
		if y >= uint64(w) {
			r = 0
		} else {
			r = x << y
		}
	case OpLShr:
		if y >= uint64(w) {
			r = 0
		} else {
			r = x >> y
		}
	case OpAShr:
		sx := sval(w, x)
		if y >= uint64(w) {
			if sx < 0 {
				r = mask(w)
			} else {
				r = 0
			}
		} else {
			r = uint64(sx >> y)
		}
	default:
		panic("Bin: bad op")
	}
	return r & mask(w)
}

// ---------------------------------------------------------------------------
// SMT-LIB2 printing

func sortStr(w uint8) string {
	if w == 0 {
		return "Bool"
	}
	return fmt.Sprintf("(_ BitVec %d)", w)
}

func constStr(w uint8, v uint64) string {
	if w == 0 {
		if v != 0 {
			return "true"
		}
		return "false"
	}
	if w%4 == 0 {
		return fmt.Sprintf("#x%0*x", int(w/4), v)
	}
	return fmt.Sprintf("#b%0*b", int(w), v)
}

func (t *Term) ref() string {
	switch t.op {
	case OpConst:
		return constStr(t.w, t.k)
	case OpVar:
		return t.name
	}
	return fmt.Sprintf("n%d", t.id)
}

func (t *Term) body() string {
	switch t.op {
	case OpNot:
		return "(not " + t.a.ref() + ")"
	case OpIte:
		return "(ite " + t.a.ref() + " " + t.b.ref() + " " + t.c.ref() + ")"
	case OpExtract:
		return fmt.Sprintf("((_ extract %d %d) %s)", t.k>>8, t.k&255, t.a.ref())
	case OpZext:
		return fmt.Sprintf("((_ zero_extend %d) %s)", t.w-t.a.w, t.a.ref())
	case OpSext:
		return fmt.Sprintf("((_ sign_extend %d) %s)", t.w-t.a.w, t.a.ref())
	default:
		return "(" + opNames[t.op] + " " + t.a.ref() + " " + t.b.ref() + ")"
	}
}

// String renders a term as a nested expression (for samples/debug; bounded).
func (t *Term) String() string {
	var sb strings.Builder
	t.str(&sb, 0)
	return sb.String()
}

func (t *Term) str(sb *strings.Builder, depth int) {
	if sb.Len() > 400 {
		sb.WriteString("…")
		return
	}
	switch t.op {
	case OpConst:
		sb.WriteString(constStr(t.w, t.k))
	case OpVar:
		sb.WriteString(t.name)
	case OpNot:
		sb.WriteString("(not ")
		t.a.str(sb, depth+1)
		sb.WriteString(")")
	case OpIte:
		sb.WriteString("(ite ")
		t.a.str(sb, depth+1)
		sb.WriteString(" ")
		t.b.str(sb, depth+1)
		sb.WriteString(" ")
		t.c.str(sb, depth+1)
		sb.WriteString(")")
	case OpExtract, OpZext, OpSext:
		sb.WriteString("(" + map[Op]string{OpExtract: "extract", OpZext: "zext", OpSext: "sext"}[t.op] + " ")
		t.a.str(sb, depth+1)
		sb.WriteString(")")
	default:
		sb.WriteString("(" + opNames[t.op] + " ")
		t.a.str(sb, depth+1)
		sb.WriteString(" ")
		t.b.str(sb, depth+1)
		sb.WriteString(")")
	}
}

// Vars collects the variables below t.
func (t *Term) Vars(seen map[*Term]bool, out *[]*Term) {
	if t == nil || seen[t] {
		return
	}
	seen[t] = true
	if t.op == OpVar {
		*out = append(*out, t)
		return
	}
	t.a.Vars(seen, out)
	t.b.Vars(seen, out)
	t.c.Vars(seen, out)
}
