package main

import (
	"crypto/sha256"
	"fmt"
	"os"
	"os/exec"
	"path/filepath"
	"sort"
	"strings"

	"golang.org/x/tools/go/packages"
	"golang.org/x/tools/go/ssa"
	"golang.org/x/tools/go/ssa/ssautil"
)

const repoMod = "github.com/JunNishimura/Goit"

// interpretedStd: standard-library packages whose pure functions may be executed from their own SSA when no intrinsic
// model exists (so that a change to Goit that starts using e.g. strings.HasPrefix is still encoded).
var interpretedStd = map[string]bool{"strings": true, "bytes": true, "strconv": true, "sort": true, "path": true, "path/filepath": true,
	"errors": true, "unicode/utf8": true, "slices": true, "cmp": true, "math/bits": true, "internal/stringslite": true, "internal/bytealg": true, "internal/itoa": true, "io": true, "unicode": true, "bufio": true, "encoding/hex": true, "container/list": true, "container/heap": true, "unicode/utf16": true, "internal/filepathlite": true}

type Loaded struct {
	prog    *ssa.Program
	pkgs    map[string]*ssa.Package // by import path
	repoDir string
	verDir  string
	loadS   float64
	gitHead string
	diffSum string
	dropped []string
}

// overlayFor maps /verif/harness/<pkg>/zz_*.go into /repo/<pkg>/ and the symbolic zzvp API into /repo/internal/zzvp.
func overlayFor(repoDir, verDir string, native bool) (map[string][]byte, error) {
	ov := map[string][]byte{}
	hroot := filepath.Join(verDir, "harness")
	err := filepath.Walk(hroot, func(p string, info os.FileInfo, err error) error {
		if err != nil || info.IsDir() || !strings.HasSuffix(p, ".go") {
			return err
		}
		rel, _ := filepath.Rel(hroot, p)
		parts := strings.Split(rel, string(filepath.Separator))
		b, err := os.ReadFile(p)
		if err != nil {
			return err
		}
		switch parts[0] {
		case "zzvp_sym":
			if !native {
				ov[filepath.Join(repoDir, "internal", "zzvp", parts[len(parts)-1])] = b
			}
		case "zzvp_native":
			if native {
				ov[filepath.Join(repoDir, "internal", "zzvp", parts[len(parts)-1])] = b
			}
		case "zzos_native":
		default:
			// harness/<pkgpath with __ for />/file.go  e.g. harness/internal__store/zz_c06.go
			if !native && parts[len(parts)-1] == "zz_map.go" {
				break // the name -> function table is only needed by the native test binary
			}
			dir := strings.ReplaceAll(parts[0], "__", string(filepath.Separator))
			ov[filepath.Join(repoDir, dir, parts[len(parts)-1])] = b
		}
		return nil
	})
	return ov, err
}

// Load type-checks /repo's working tree together with the harness overlay. A harness file that no longer compiles
// against the tree (an unexported function it calls was renamed or re-typed) is dropped and the load repeated, so that
// the remaining harnesses still run; the dropped files are reported (their harnesses count as not applicable to this tree).
func Load(repoDir, verDir string) (*Loaded, error) {
	ov, err := overlayFor(repoDir, verDir, false)
	if err != nil {
		return nil, err
	}
	var dropped []string
	for attempt := 0; attempt < 8; attempt++ {
		ld, bad, err := loadWith(repoDir, verDir, ov)
		if err == nil {
			ld.dropped = dropped
			return ld, nil
		}
		if len(bad) == 0 {
			return nil, err
		}
		for _, f := range bad {
			delete(ov, f)
			dropped = append(dropped, f)
		}
	}
	return nil, fmt.Errorf("harness overlay does not compile against the tree")
}

func loadWith(repoDir, verDir string, ov map[string][]byte) (*Loaded, []string, error) {
	cfg := &packages.Config{
		Mode: packages.NeedName | packages.NeedFiles | packages.NeedCompiledGoFiles | packages.NeedImports |
			packages.NeedDeps | packages.NeedTypes | packages.NeedSyntax | packages.NeedTypesInfo | packages.NeedTypesSizes | packages.NeedModule,
		Dir:     repoDir,
		Overlay: ov,
		Env:     append(os.Environ(), "GOFLAGS=-mod=mod", "GOPROXY=off", "GOSUMDB=off", "GOTOOLCHAIN=local"),
	}
	pkgs, err := packages.Load(cfg, "./...")
	if err != nil {
		return nil, nil, err
	}
	var errs []string
	badSet := map[string]bool{}
	packages.Visit(pkgs, nil, func(p *packages.Package) {
		if strings.HasPrefix(p.PkgPath, repoMod) {
			for _, e := range p.Errors {
				errs = append(errs, e.Error())
				// position "file:line:col"
				if i := strings.Index(e.Pos, ":"); i > 0 {
					if _, isOverlay := ov[e.Pos[:i]]; isOverlay && strings.HasPrefix(filepath.Base(e.Pos[:i]), "zz_") {
						badSet[e.Pos[:i]] = true
					}
				}
			}
		}
	})
	if len(errs) > 0 {
		var bad []string
		for f := range badSet {
			bad = append(bad, f)
		}
		return nil, bad, fmt.Errorf("load errors:\n%s", strings.Join(errs, "\n"))
	}
	prog, _ := ssautil.AllPackages(pkgs, ssa.InstantiateGenerics)
	ld := &Loaded{prog: prog, pkgs: map[string]*ssa.Package{}, repoDir: repoDir, verDir: verDir}
	for _, sp := range prog.AllPackages() {
		path := sp.Pkg.Path()
		if strings.HasPrefix(path, repoMod) || interpretedStd[path] {
			sp.Build()
		}
		ld.pkgs[path] = sp
	}
	ld.gitHead = strings.TrimSpace(runOut(repoDir, "git", "rev-parse", "HEAD"))
	diff := runOut(repoDir, "git", "diff", "HEAD")
	ld.diffSum = fmt.Sprintf("%x", sha256.Sum256([]byte(diff)))[:16]
	return ld, nil, nil
}

func runOut(dir string, name string, args ...string) string {
	c := exec.Command(name, args...)
	c.Dir = dir
	b, _ := c.Output()
	return string(b)
}

func (ld *Loaded) fn(pkgPath, name string) *ssa.Function {
	p := ld.pkgs[pkgPath]
	if p == nil {
		return nil
	}
	return p.Func(name)
}

// externalCallees lists every function without a body that repo code calls (the trusted-base surface).
func (ld *Loaded) externalCallees() []string {
	seen := map[string]bool{}
	for _, p := range ld.pkgs {
		for _, m := range p.Members {
			if f, ok := m.(*ssa.Function); ok {
				collectCallees(f, seen)
			}
		}
	}
	var out []string
	for k := range seen {
		out = append(out, k)
	}
	sort.Strings(out)
	return out
}

func collectCallees(f *ssa.Function, seen map[string]bool) {
	for _, b := range f.Blocks {
		for _, ins := range b.Instrs {
			if c, ok := ins.(ssa.CallInstruction); ok {
				cc := c.Common()
				if cc.IsInvoke() {
					seen["invoke "+cc.Method.FullName()] = true
				} else if sc := cc.StaticCallee(); sc != nil && sc.Blocks == nil {
					seen[sc.String()] = true
				}
			}
			if mc, ok := ins.(*ssa.MakeClosure); ok {
				collectCallees(mc.Fn.(*ssa.Function), seen)
			}
		}
	}
	for _, an := range f.AnonFuncs {
		collectCallees(an, seen)
	}
}
