package main

import (
	"encoding/json"
	"flag"
	"fmt"
	"os"
	"runtime/debug"
	"runtime/pprof"
	"strconv"
	"strings"
	"time"
)

func defaultCfg(tier string) *RunCfg {
	cfg := &RunCfg{BranchTimeoutMs: 10000, AssertTimeoutMs: 30000, MaxSteps: 20_000_000, MaxBackEdges: 5000, StopAtFirst: true, Known: map[string]bool{}, Tier: tier}
	if tier == "thorough" {
		cfg.BranchTimeoutMs, cfg.AssertTimeoutMs = 60000, 120000
		cfg.Cross = []string{"cvc5", "z3:10"}
	}
	if x := os.Getenv("GOITSYM_CROSS"); x != "" {
		cfg.Cross = strings.Split(x, ",")
	}
	return cfg
}

func main() {
	if p := os.Getenv("GOITSYM_PROF"); p != "" {
		f, _ := os.Create(p)
		pprof.StartCPUProfile(f)
		defer pprof.StopCPUProfile()
	}
	realMain()
}

func realMain() {
	debug.SetGCPercent(400)
	if len(os.Args) < 2 {
		fmt.Println("usage: goitsym run|check|callees ...")
		os.Exit(2)
	}
	switch os.Args[1] {
	case "callees":
		ld, err := Load("/repo", "/verif")
		if err != nil {
			fmt.Println(err)
			os.Exit(2)
		}
		for _, c := range ld.externalCallees() {
			_, ok := intrinsics[c]
			fmt.Println(c, ok)
		}
	case "run":
		fs := flag.NewFlagSet("run", flag.ExitOnError)
		h := fs.String("harness", "", "pkg:Func")
		workers := fs.Int("j", 1, "workers")
		params := fs.String("p", "", "k=v,k=v")
		all := fs.Bool("all", false, "do not stop at first violation")
		budget := fs.Duration("budget", 10*time.Minute, "time budget")
		repoDir := fs.String("repo", "/repo", "repository (development: a scratch copy)")
		verDir := fs.String("verif", "/verif", "verification directory")
		fs.Parse(os.Args[2:])
		t0 := time.Now()
		ld, err := Load(*repoDir, *verDir)
		if err != nil {
			fmt.Println(err)
			os.Exit(2)
		}
		fmt.Printf("loaded in %.1fs\n", time.Since(t0).Seconds())
		parts := strings.SplitN(*h, ":", 2)
		spec := HarnessSpec{Pkg: parts[0], Func: parts[1], Params: map[string]int{}}
		for _, kv := range strings.Split(*params, ",") {
			if kv == "" {
				continue
			}
			p := strings.SplitN(kv, "=", 2)
			v, _ := strconv.Atoi(p[1])
			spec.Params[p[0]] = v
		}
		cfg := defaultCfg("quick")
		cfg.StopAtFirst = !*all
		res := RunHarness(ld, spec, cfg, *workers, *budget)
		printResult(res)
	case "instr":
		// development aid: build the instrumented goit binary into the given directory and print its path
		out, err := buildInstrumented("/repo", "/verif", os.Args[2])
		fmt.Println(out, err)
	case "check":
		os.Exit(cmdCheck(os.Args[2:]))
	case "replay":
		os.Exit(cmdReplay(os.Args[2:]))
	default:
		fmt.Println("unknown command")
		os.Exit(2)
	}
}

func printResult(res *HarnessResult) {
	s := res.Stats
	fmt.Printf("harness %s: paths=%d pruned=%d steps=%d obligations=%d discharged=%d undischarged=%d unproved=%d unwind=%d engineErr=%d panics=%d reachedEnd=%d queries=%d solver=%.1fs wall=%.1fs complete=%v\n",
		res.Spec.Name(), s.Paths, s.Pruned, s.Steps, s.Obligations, s.Discharged, s.Undischarged, s.Unproved, s.UnwindFail, s.EngineErrors, s.Panics, s.ReachedEnd, res.Queries, res.SolverTime, res.Wall, res.Complete)
	for _, e := range s.ErrSamples {
		fmt.Println("  ERR:", e)
	}
	for _, e := range s.PanicSamples {
		fmt.Println("  PANIC-IN-RUN:", e)
	}
	for i, v := range res.Violations {
		if i >= 300 {
			break
		}
		b, _ := json.Marshal(v.Inputs)
		fmt.Printf("  VIOL: %s\n    inputs=%s\n    notes=%v\n", v.Msg, showInputs(v.Inputs), v.Notes)
		_ = b
	}
	for k, v := range s.Funcs {
		if strings.HasPrefix(k, "@decision") && v > 50 {
			fmt.Printf("  %s x%d\n", k, v)
		}
	}
	for k, v := range s.AssertsByMsg {
		fmt.Printf("  assert %q x%d\n", k, v)
	}
}

func showInputs(in map[string]interface{}) string {
	var sb strings.Builder
	for _, k := range sortedIfaceKeys(in) {
		v := in[k]
		switch v := v.(type) {
		case []int:
			if strings.HasPrefix(k, "@") {
				fmt.Fprintf(&sb, "%s=%v ", k, v)
				continue
			}
			b := make([]byte, len(v))
			for i, e := range v {
				b[i] = byte(e)
			}
			fmt.Fprintf(&sb, "%s=%q ", k, string(b))
		default:
			fmt.Fprintf(&sb, "%s=%v ", k, v)
		}
	}
	return sb.String()
}

func sortedIfaceKeys(m map[string]interface{}) []string {
	ks := make([]string, 0, len(m))
	for k := range m {
		ks = append(ks, k)
	}
	sortStrings(ks)
	return ks
}
