package cmd

import (
	"github.com/JunNishimura/Goit/internal/zzvp"
)

// VP_C08_Positions: reflog positions with one or two digits over a journal of more than ten entries: every position inside
// the journal moves the branch to the commit reflog shows there, every position beyond it is refused.
func VP_C08_Positions() {
	vpInitRepo()
	w := zzvp.Root()
	n := zzvp.Param("commits", 11)
	for i := 0; i < n; i++ {
		zzvp.WriteFile(w+"/f", []byte{byte('a' + i)})
		vpOK(zzvp.Run("add", "f"))
		vpOK(zzvp.Run("commit", "-m", "c"+string(rune('a'+i))))
	}
	shown := vpReflogShort(zzvp.Run("reflog").Out)
	zzvp.Assert(len(shown) == n, "reflog shows one entry per commit")
	digits := zzvp.Str("pos", 1+zzvp.Choose(2), "0-9")
	pos := 0
	for _, d := range []byte(digits) {
		pos = pos*10 + int(d-'0')
	}
	s0 := zzvp.Snapshot(w)
	r := zzvp.Run("reset", "--soft", "HEAD@{"+digits+"}")
	if pos < len(shown) {
		zzvp.Assert(r.Exit == 0, "every position inside the journal is accepted (two-digit positions included)")
		tip, _, wf := vpBranch("main")
		zzvp.Assert(wf && vpHex(tip)[:7] == shown[pos], "the branch moves to exactly the commit reflog displays at that position")
	} else {
		zzvp.Assert(r.Exit == 1 && zzvp.SnapEq(s0, zzvp.Snapshot(w)), "a position beyond the journal is refused and changes nothing")
	}
	zzvp.Done()
}
