package cmd

import (
	"github.com/JunNishimura/Goit/internal/zzvp"
)

// VP_C09_Restore: restore <arg> makes the named tracked files equal to their staged blobs and changes nothing else.
func VP_C09_Restore() {
	ts, us := vpBuildState(1+zzvp.Choose(zzvp.Param("tracked", 2)), zzvp.Param("depth", 2), zzvp.Param("complen", 1), true)
	w, g := zzvp.Root(), vpG()
	arg := vpArg("arg", zzvp.Param("depth", 2), zzvp.Param("complen", 1))
	idxBefore, _ := vpReadIndex()
	r := zzvp.Run("restore", arg)
	zzvp.Assert(r.Exit == 0 || r.Exit == 1, "restore ends with status 0 or 1")
	named := false
	for _, t := range ts {
		if vpUnder(t.path, arg) {
			named = true
		}
	}
	idxAfter, _ := vpReadIndex()
	zzvp.Assert(vpSamePairList(idxBefore, idxAfter), "restore changes nothing in the staging area")
	for _, u := range us {
		c, ok := zzvp.ReadFile(w + "/" + u.path)
		zzvp.Assert(ok && string(c) == string(u.content), "restore leaves untracked files alone")
	}
	for _, t := range ts {
		if !vpUnder(t.path, arg) {
			c, ok := zzvp.ReadFile(w + "/" + t.path)
			zzvp.Assert(ok == t.exists && (!ok || string(c) == string(t.current)), "restore changes no file that was not named")
		}
	}
	if named {
		zzvp.Assert(r.Exit == 0, "a tracked file, or a directory with tracked files (existing or not), can be restored")
		if r.Exit == 0 {
			for _, t := range ts {
				if vpUnder(t.path, arg) {
					c, ok := zzvp.ReadFile(w + "/" + t.path)
					zzvp.Assert(ok && string(c) == string(t.staged), "each named tracked file is byte-identical to its staged blob, missing parents created")
				}
			}
		}
	} else {
		zzvp.Assert(r.Exit == 1, "a path known to neither the staging area nor HEAD is refused")
	}
	_ = g
	zzvp.Done()
}

// VP_C09_RestoreStaged: restore --staged <arg> resets the named entries to HEAD's and changes nothing else.
func VP_C09_RestoreStaged() {
	vpInitRepo()
	w := zzvp.Root()
	depth, maxc := zzvp.Param("depth", 2), zzvp.Param("complen", 1)
	// committed files
	files := vpWorkFiles(1+zzvp.Choose(zzvp.Param("files", 2)), depth, maxc, 1)
	for _, f := range files {
		vpOK(zzvp.Run("add", f.path))
	}
	vpOK(zzvp.Run("commit", "-m", "base"))
	head, _ := vpReadIndex()
	// staged changes: edit+add, rm, or nothing; plus optionally a newly added file
	for i, f := range files {
		switch zzvp.Choose(3) {
		case 1:
			nc := zzvp.Bytes("e"+string(rune('0'+i)), 1, "")
			zzvp.Assume(string(nc) != string(f.content))
			zzvp.WriteFile(w+"/"+f.path, nc)
			vpOK(zzvp.Run("add", f.path))
		case 2:
			vpOK(zzvp.Run("rm", f.path))
		}
	}
	switch zzvp.Choose(4) {
	case 3:
		// a committed top-level file replaced by a directory of the same name (only if the first file is at top level)
		top := files[0].path
		for i := 0; i < len(top); i++ {
			zzvp.Assume(top[i] != '/')
		}
		zzvp.RemoveAll(w + "/" + top)
		zzvp.WriteFile(w+"/"+top+"/"+vpComp("kx", 1), []byte("K"))
		vpOK(zzvp.Run("add", top))
	case 1:
		np := vpPath("nw", depth, maxc)
		for _, f := range files {
			zzvp.Assume(np != f.path && !vpHasDirPrefix(np, f.path) && !vpHasDirPrefix(f.path, np))
		}
		zzvp.WriteFile(w+"/"+np, []byte("N"))
		vpOK(zzvp.Run("add", np))
	case 2:
		// a committed directory replaced by a file of the same name (only if the first file lives in a directory)
		dir := ""
		for i := 0; i < len(files[0].path); i++ {
			if files[0].path[i] == '/' {
				dir = files[0].path[:i]
				break
			}
		}
		zzvp.Assume(dir != "")
		for _, f := range files[1:] {
			zzvp.Assume(!vpHasDirPrefix(f.path, dir))
		}
		if zzvp.Exists(w + "/" + files[0].path) {
			vpOK(zzvp.Run("rm", files[0].path))
		}
		zzvp.RemoveAll(w + "/" + dir)
		zzvp.WriteFile(w+"/"+dir, []byte("F"))
		vpOK(zzvp.Run("add", dir))
	}
	arg := vpArg("arg", depth, maxc)
	idxBefore, _ := vpReadIndex()
	g := vpG()
	s0 := zzvp.Snapshot(w)
	r := zzvp.Run("restore", "--staged", arg)
	zzvp.Assert(r.Exit == 0 || r.Exit == 1, "restore --staged ends with status 0 or 1")
	idxAfter, ok := vpReadIndex()
	zzvp.Assert(ok, "the staging area decodes after restore --staged")
	zzvp.Assert(zzvp.SnapEq(s0, zzvp.Snapshot(w), g+"/index"), "restore --staged changes no working file")
	// specification: named paths take HEAD's entry (or none); all others keep theirs
	known := false
	var want []vpPair
	for _, e := range idxBefore {
		if !vpUnder(e.path, arg) {
			want = append(want, e)
		} else {
			known = true
		}
	}
	for _, h := range head {
		if vpUnder(h.path, arg) {
			known = true
			// a staged entry that cannot coexist with the re-created one (the same name as a file and as a directory)
			// is replaced by it: the staging area never tracks a name in both kinds (see DESIGN §11.4, fix 32)
			var w2 []vpPair
			for _, e := range want {
				if !vpHasDirPrefix(h.path, e.path) && !vpHasDirPrefix(e.path, h.path) {
					w2 = append(w2, e)
				}
			}
			want = append(w2, h)
		}
	}
	if known {
		zzvp.Assert(r.Exit == 0, "a path known to the staging area or to HEAD can be restored --staged")
		if r.Exit == 0 {
			same := len(want) == len(idxAfter)
			for _, e := range want {
				id, found := vpFindPair(idxAfter, e.path)
				if !found || id != e.hash {
					same = false
				}
			}
			zzvp.Assert(same, "each named entry equals HEAD's entry (removed if HEAD has none, re-created if unstaged); no other entry changes, except one that cannot coexist with a re-created entry")
		}
	} else {
		zzvp.Assert(r.Exit == 1 && vpSamePairList(idxBefore, idxAfter), "a path known to neither is refused and nothing changes")
	}
	zzvp.Done()
}

// VP_C09_RestoreMulti: restore with two arguments, among them a tracked directory next to tracked paths whose names
// extend the directory's name ("d", "d.txt", "d2"): every named tracked file equals its staged blob afterwards.
func VP_C09_RestoreMulti() {
	vpInitRepo()
	w := zzvp.Root()
	d := vpComp("md", 1)
	sib := d + zzvp.Str("ms", 1, "a-z0-9._-") // a sibling whose name starts with the directory's name
	inner := d + "/" + vpComp("mi", 1)
	other := vpComp("mo", 1)
	zzvp.Assume(other != d && other != sib)
	paths := []string{inner, sib, other}
	for i, p := range paths {
		zzvp.WriteFile(w+"/"+p, []byte{byte('1' + i)})
	}
	vpOK(zzvp.Run("add", "."))
	if zzvp.Choose(2) == 1 {
		vpOK(zzvp.Run("commit", "-m", "c"))
	}
	// dirty all three (edit or delete)
	for _, p := range paths {
		if zzvp.Choose(2) == 0 {
			zzvp.WriteFile(w+"/"+p, []byte("dirty"))
		} else {
			zzvp.RemoveAll(w + "/" + p)
		}
	}
	args := [][]string{{d, sib}, {sib, d}, {d, inner}, {inner, d}, {d, d}, {d, other}, {sib, other}}[zzvp.Choose(7)]
	r := zzvp.Run("restore", args[0], args[1])
	zzvp.Assert(r.Exit == 0, "a tracked file, or a directory with tracked files (existing or not), can be restored")
	for i, p := range paths {
		namedP := false
		for _, a := range args {
			if vpUnder(p, a) {
				namedP = true
			}
		}
		c, ok := zzvp.ReadFile(w + "/" + p)
		if namedP {
			zzvp.Assert(ok && len(c) == 1 && c[0] == byte('1'+i), "each named tracked file is byte-identical to its staged blob, missing parents created")
		} else {
			zzvp.Assert(!ok || string(c) == "dirty", "restore changes no file that was not named")
		}
	}
	zzvp.Done()
}
