package cmd

import (
	"github.com/JunNishimura/Goit/internal/object"
	"github.com/JunNishimura/Goit/internal/zzvp"
)

func vpFlattenNodes(prefix string, nodes []*object.Node) []vpPair {
	var out []vpPair
	for _, n := range nodes {
		full := n.Name
		if prefix != "" {
			full = prefix + "/" + n.Name
		}
		if len(n.Children) == 0 {
			out = append(out, vpPair{full, string(n.Hash)})
		} else {
			out = append(out, vpFlattenNodes(full, n.Children)...)
		}
	}
	return out
}

// VP_C02_WriteTree: the tree objects written for a staging area decode (independent Git-format decoder) to exactly its (path, id) pairs.
func VP_C02_WriteTree() {
	n := zzvp.Choose(zzvp.Param("entries", 3) + 1)
	es := vpEntries(n, zzvp.Param("depth", 2), zzvp.Param("complen", 2))
	g := vpGoit()
	obj, err := writeTreeObject(g, es)
	zzvp.Assert(err == nil && obj != nil, "writing the snapshot succeeds")
	if err == nil && obj != nil {
		flat, ok := vpDecodeTree(g, obj.Hash, "", 0)
		zzvp.Assert(ok, "every tree object written is well-formed Git tree data and every sub-tree exists")
		if ok {
			zzvp.Assert(vpSamePairs(es, flat), "the snapshot flattened to (path, blob id) pairs is exactly the staging area")
		}
	}
	zzvp.Done()
}

// VP_C05_TreeRoundTrip: Goit's own reading of a snapshot it wrote yields exactly the staged pairs; cat-file -p lists the direct children.
func VP_C05_TreeRoundTrip() {
	n := zzvp.Choose(zzvp.Param("entries", 3) + 1)
	es := vpEntries(n, zzvp.Param("depth", 2), zzvp.Param("complen", 2))
	g := vpGoit()
	obj, err := writeTreeObject(g, es)
	zzvp.Assume(err == nil && obj != nil)
	got, err := object.GetObject(g, obj.Hash)
	zzvp.Assert(err == nil, "the root tree can be retrieved by its id")
	if err != nil {
		return
	}
	tree, err := object.NewTree(g, got)
	zzvp.Assert(err == nil, "Goit reads back a snapshot it wrote (including the empty snapshot)")
	if err != nil {
		return
	}
	zzvp.Assert(vpSamePairs(es, vpFlattenNodes("", tree.Children)), "reading a snapshot back yields exactly the staged (path, blob id) pairs, names complete")
	// cat-file -p: one line per direct child: "<mode> <kind> <40 hex>\t<name>"
	var want []string
	last := ""
	for _, e := range es {
		p := string(e.Path)
		first := p
		isDir := false
		for i := 0; i < len(p); i++ {
			if p[i] == '/' {
				first, isDir = p[:i], true
				break
			}
		}
		if isDir {
			if first == last {
				continue
			}
			last = first
			want = append(want, "040000 tree \t"+first)
		} else {
			last = ""
			want = append(want, "100644 blob "+e.Hash.String()+"\t"+first)
		}
	}
	text := tree.String()
	lines := vpSplitLines(text)
	ok := len(lines) == len(want)
	if ok {
		for i := range want {
			w, l := want[i], lines[i]
			if len(w) > 12 && w[:12] == "040000 tree " {
				// id of the sub-tree is not known to the oracle: compare kind and name, require 40 hex digits
				if len(l) != 12+40+len(w)-12 || l[:12] != "040000 tree " || l[52:] != w[12:] {
					ok = false
				}
			} else if l != w {
				ok = false
			}
		}
	}
	if len(es) == 0 {
		ok = text == ""
	}
	zzvp.Assert(ok, "cat-file -p of a tree lists exactly its direct children with kind, id and complete name")
	zzvp.Done()
}

func vpSplitLines(s string) []string {
	var out []string
	start := 0
	for i := 0; i < len(s); i++ {
		if s[i] == '\n' {
			out = append(out, s[start:i])
			start = i + 1
		}
	}
	if start < len(s) {
		out = append(out, s[start:])
	}
	return out
}
