package cmd

import (
	"github.com/JunNishimura/Goit/internal/zzvp"
)

const vpMsgAlpha = "\t\n -~"

type vpFile struct {
	path    string
	content []byte
}

// vpWorkFiles: n files with symbolic, pairwise distinct, prefix-free paths and symbolic contents, written to the work tree.
func vpWorkFiles(n, depth, maxc, maxContent int) []vpFile {
	var fs []vpFile
	for i := 0; i < n; i++ {
		id := string(rune('0' + i))
		mc := maxc
		if zzvp.Param("asym", 0) == 1 && i == 0 {
			mc = 1 // only the later files get long components (sibling-name cases need one short and one long name)
		}
		p := vpPath("f"+id, depth, mc)
		for _, o := range fs {
			zzvp.Assume(o.path != p && !vpHasDirPrefix(p, o.path) && !vpHasDirPrefix(o.path, p))
		}
		cl := maxContent
		if zzvp.Param("contentfixed", 0) == 0 {
			cl = zzvp.Choose(maxContent + 1) // lengths 0..maxContent; with contentfixed=1 exactly maxContent bytes
		}
		var c []byte
		if zzvp.Param("concontent", 0) == 1 || i >= zzvp.Param("symfiles", 99) {
			c = []byte{byte('A' + i)} // fixed, pairwise distinct bytes (the harness varies contents elsewhere)
		} else {
			alpha := ""
			if zzvp.Param("smallcontent", 0) == 1 {
				alpha = "x\x00\n" // three byte values: enough where contents matter only through (in)equality
			}
			c = zzvp.Bytes("c"+id, cl, alpha)
		}
		zzvp.WriteFile(zzvp.Root()+"/"+p, c)
		fs = append(fs, vpFile{p, c})
	}
	return fs
}

// VP_C02_Commit: one successful commit from a reachable state records exactly the staged snapshot and extends the current branch.
func VP_C02_Commit() {
	vpInitRepo()
	w, g := zzvp.Root(), vpG()
	files := vpWorkFiles(1+zzvp.Choose(zzvp.Param("files", 2)), zzvp.Param("depth", 2), zzvp.Param("complen", 2), zzvp.Param("content", 1))
	for _, f := range files {
		vpOK(zzvp.Run("add", f.path))
	}
	hasParent := zzvp.Choose(2) == 1
	var tipBefore, devBefore []byte
	if hasParent {
		vpOK(zzvp.Run("commit", "-m", "base"))
		vpOK(zzvp.Run("branch", "dev"))
		tipBefore, _, _ = vpBranch("main")
		devBefore, _, _ = vpBranch("dev")
		// edit the first file and stage it
		nc := zzvp.Bytes("edit", 1+zzvp.Choose(zzvp.Param("content", 1)), "")
		zzvp.Assume(string(nc) != string(files[0].content))
		zzvp.WriteFile(w+"/"+files[0].path, nc)
		files[0].content = nc
		vpOK(zzvp.Run("add", files[0].path))
	}
	staged, ok := vpReadIndex()
	zzvp.Assume(ok)
	msg := zzvp.Str("msg", zzvp.Choose(zzvp.Param("msglen", 3)+1), vpMsgAlpha)
	s0 := zzvp.Snapshot(w)
	r := zzvp.Run("commit", "-m", msg)
	zzvp.Assert(r.Exit == 0, "commit succeeds when something is staged")
	if r.Exit != 0 {
		return
	}
	tip, exists, wf := vpBranch("main")
	zzvp.Assert(exists && wf, "the current branch holds a full commit id after commit")
	if !wf {
		return
	}
	kind, data, ok := vpReadObject(g, tip)
	zzvp.Assert(ok && kind == "commit", "the branch points to a stored commit object")
	if !ok {
		return
	}
	c := vpParseCommit(data)
	zzvp.Assert(c.ok, "the commit object is well-formed")
	if !c.ok {
		return
	}
	flat, ok := vpDecodeTree(g, c.tree, "", 0)
	zzvp.Assert(ok && vpSamePairList(flat, staged), "the commit's snapshot flattened to (path, blob id) is exactly the staging area")
	for _, f := range files {
		id, found := vpFindPair(flat, f.path)
		zzvp.Assert(found && id == string(vpBlobID(f.content)), "each snapshot entry has the blob id of the file's staged bytes")
		k, blob, ok := vpReadObject(g, []byte(id))
		zzvp.Assert(ok && k == "blob" && string(blob) == string(f.content), "each blob holds the bytes the file had when it was staged")
	}
	if hasParent {
		zzvp.Assert(len(c.parents) == 1 && string(c.parents[0]) == string(tipBefore), "the only parent is the commit the branch pointed to before")
		dev, _, _ := vpBranch("dev")
		zzvp.Assert(string(dev) == string(devBefore), "no other branch moves")
	} else {
		zzvp.Assert(len(c.parents) == 0, "the first commit has no parent")
	}
	const ident = "A U Thor <a@b.cd> "
	zzvp.Assert(len(c.author) > len(ident) && c.author[:len(ident)] == ident && c.committer == c.author, "author and committer are the configured identity")
	zzvp.Assert(c.message == msg, "the recorded message is the message given")
	zzvp.Assert(vpHeadRef() == "main", "HEAD still names the same branch")
	zzvp.Assert(zzvp.SnapEq(s0, zzvp.Snapshot(w), g+"/objects", g+"/refs/heads/main", g+"/logs"), "no staged entry, working file or other branch changes")
	zzvp.Assert(vpFsck() == "", "the repository is connected after commit")
	zzvp.Done()
}

// VP_C02_Branches: a commit made on a branch that was just switched to, created or renamed, in the presence of other
// branches with free (case-mixed) names, extends exactly the branch HEAD names; every other branch keeps its commit.
func VP_C02_Branches() {
	vpInitRepo()
	w, g := zzvp.Root(), vpG()
	zzvp.WriteFile(w+"/f", []byte("1"))
	vpOK(zzvp.Run("add", "f"))
	vpOK(zzvp.Run("commit", "-m", "base"))
	base, _, _ := vpBranch("main")
	const alpha = "a-zA-Z0-9_."
	nl := zzvp.Param("namelen", 1)
	var names []string
	for i := 0; i < 1+zzvp.Choose(zzvp.Param("branches", 2)); i++ {
		n := zzvp.Str("b"+string(rune('0'+i)), 1+zzvp.Choose(nl), alpha)
		zzvp.Assume(n != "." && n != ".." && n != "main")
		for _, o := range names {
			zzvp.Assume(o != n)
		}
		vpOK(zzvp.Run("branch", n))
		names = append(names, n)
	}
	cur := "main"
	switch zzvp.Choose(4) {
	case 1:
		cur = names[zzvp.Choose(len(names))]
		vpOK(zzvp.Run("switch", cur))
	case 2, 3:
		n := zzvp.Str("nw", 1+zzvp.Choose(nl), alpha)
		zzvp.Assume(n != "." && n != ".." && n != "main")
		for _, o := range names {
			zzvp.Assume(o != n)
		}
		if zzvp.Choose(2) == 0 {
			vpOK(zzvp.Run("switch", "-c", n))
		} else {
			vpOK(zzvp.Run("branch", "-r", n))
		}
		cur = n
	}
	before := vpReadRefs()
	zzvp.Assert(before.head == cur, "HEAD names the branch that was switched to, created or renamed")
	zzvp.WriteFile(w+"/f", []byte("2"))
	vpOK(zzvp.Run("add", "f"))
	r := zzvp.Run("commit", "-m", "next")
	zzvp.Assert(r.Exit == 0, "commit succeeds when something is staged")
	if r.Exit != 0 {
		return
	}
	after := vpReadRefs()
	tip, found := after.get(cur)
	zzvp.Assert(found && after.head == cur && len(after.names) == len(before.names), "HEAD still names the same branch and no branch appears or disappears")
	_, data, ok := vpReadObject(g, []byte(tip))
	c := vpParseCommit(data)
	zzvp.Assert(ok && c.ok && tip != string(base) && len(c.parents) == 1 && string(c.parents[0]) == string(base), "the current branch now names a new commit whose only parent is its previous commit")
	moved := false
	for i, n := range before.names {
		id, _ := after.get(n)
		if n != cur && id != before.ids[i] {
			moved = true
		}
	}
	zzvp.Assert(!moved, "no other branch moves")
	zzvp.Assert(vpFsck() == "", "the repository is connected after commit")
	zzvp.Done()
}

// VP_C02_Identity: the recorded author and committer are the configured identity and the recorded message is the message
// given, for free names and messages (printable bytes including '%', quotes, brackets; no '<', no leading '-').
func VP_C02_Identity() {
	vpInitRepo()
	w, g := zzvp.Root(), vpG()
	n := 1 + zzvp.Choose(zzvp.Param("namelen", 2))
	name := zzvp.Str("nm0", 1, "!-,.-;=-~") // first byte: printable, not blank, not '-', not '<'
	if n > 1 {
		name += zzvp.Str("nm1", n-1, "!-;=-~") // last byte not blank either (values keep inner blanks only)
	}
	vpOK(zzvp.Run("config", "user.name", name))
	zzvp.WriteFile(w+"/f", []byte("1"))
	vpOK(zzvp.Run("add", "f"))
	msg := zzvp.Str("msg", zzvp.Choose(zzvp.Param("msglen", 2)+1), vpMsgAlpha)
	r := zzvp.Run("commit", "-m", msg)
	zzvp.Assert(r.Exit == 0, "commit succeeds when something is staged")
	if r.Exit != 0 {
		return
	}
	tip, _, _ := vpBranch("main")
	_, data, ok := vpReadObject(g, tip)
	c := vpParseCommit(data)
	zzvp.Assert(ok && c.ok, "the commit object is well-formed")
	ident := name + " <a@b.cd> "
	zzvp.Assert(len(c.author) > len(ident) && c.author[:len(ident)] == ident && c.committer == c.author, "author and committer are the configured identity")
	zzvp.Assert(c.message == msg, "the recorded message is the message given")
	zzvp.Done()
}
