package cmd

import (
	"github.com/JunNishimura/Goit/internal/zzvp"
)

// VP_Multi3: one pass through status / add / commit / reset / restore over FOUR tracked paths in the layouts that need
// more than two entries to go wrong (directory - file - directory at one level; a directory with two files followed by
// files; a flat list), one name free. Registered under C07, C08, C09 and C13: each assertion quotes its property's text.
func VP_Multi3() {
	vpInitRepo()
	w, g := zzvp.Root(), vpG()
	free := vpComp("mf", 1)
	var paths []string
	dirArg := ""
	switch zzvp.Choose(3) {
	case 0:
		paths, dirArg = []string{"a/p/x", "b", "c/y", free}, "c"
	case 1:
		paths, dirArg = []string{"d/x", "d/y", "e", free}, "d"
	default:
		paths = []string{"k", "m", "z", free}
	}
	for _, p := range paths[:3] {
		zzvp.Assume(free != p && !vpHasDirPrefix(p, free))
	}
	for i, p := range paths {
		zzvp.WriteFile(w+"/"+p, []byte{byte('1' + i)})
	}
	vpOK(zzvp.Run("add", "."))
	vpOK(zzvp.Run("commit", "-m", "c1"))
	first, _ := vpReadIndex()
	// working-tree changes: edit one, delete another, create a fifth
	ed, del := paths[1+zzvp.Choose(2)], paths[0]
	zzvp.WriteFile(w+"/"+ed, []byte("E"))
	zzvp.RemoveAll(w + "/" + del)
	zzvp.WriteFile(w+"/new", []byte("N"))
	zzvp.Assume(free != "new" && !vpHasDirPrefix(free, "new"))
	st := vpParseStatus(zzvp.Run("status").Out)
	zzvp.Assert(vpSameSet(st.modified, []string{ed}) && vpSameSet(st.deleted, []string{del}) && vpSameSet(st.untracked, []string{"new"}) && len(st.staged) == 0,
		"C13: modified / deleted / untracked are exactly what the bytes on disk say, nothing is staged")
	vpOK(zzvp.Run("add", ed, "new"))
	vpOK(zzvp.Run("rm", del))
	st = vpParseStatus(zzvp.Run("status").Out)
	zzvp.Assert(vpSameSet(st.staged, []string{"modified:    " + ed, "deleted:     " + del, "new file:    new"}) && len(st.modified) == 0 && len(st.deleted) == 0 && len(st.untracked) == 0,
		"C07: 'Changes to be committed' lists exactly the staged differences, each classified correctly")
	// restore --staged of one of them, then stage it again
	vpOK(zzvp.Run("restore", "--staged", ed))
	st = vpParseStatus(zzvp.Run("status").Out)
	zzvp.Assert(vpSameSet(st.staged, []string{"deleted:     " + del, "new file:    new"}) && vpSameSet(st.modified, []string{ed}),
		"C09: restore --staged makes the named entry equal to HEAD's and changes no other entry and no working file")
	vpOK(zzvp.Run("add", ed))
	vpOK(zzvp.Run("commit", "-m", "c2"))
	st = vpParseStatus(zzvp.Run("status").Out)
	zzvp.Assert(len(st.staged) == 0 && len(st.modified) == 0 && len(st.deleted) == 0 && len(st.untracked) == 0, "C07: immediately after a successful commit nothing is staged")
	second, _ := vpReadIndex()
	// back to the first commit and forth again
	mode := []string{"--mixed", "--hard"}[zzvp.Choose(2)]
	vpOK(zzvp.Run("reset", mode, "HEAD@{1}"))
	idx, _ := vpReadIndex()
	zzvp.Assert(vpSamePairList(idx, first), "C08: --mixed / --hard make the staging area equal to the target commit's snapshot")
	if mode == "--hard" {
		for i, p := range paths {
			c, ok := zzvp.ReadFile(w + "/" + p)
			zzvp.Assert(ok && len(c) == 1 && c[0] == byte('1'+i), "C08: --hard makes every file of the snapshot exist with the committed bytes")
		}
	}
	vpOK(zzvp.Run("reset", "--hard", "HEAD@{1}"))
	idx, _ = vpReadIndex()
	zzvp.Assert(vpSamePairList(idx, second), "C08: a second reset returns to the later commit's snapshot")
	// dirty everything, restore by directory / by name
	for _, e := range second {
		zzvp.WriteFile(w+"/"+e.path, []byte("dirty"))
	}
	if dirArg != "" {
		if _, found := vpFindPair(second, dirArg+"/y"); found {
			vpOK(zzvp.Run("restore", dirArg)) // a tracked directory as the argument
		}
	}
	for _, e := range second {
		r := zzvp.Run("restore", e.path)
		c, ok := zzvp.ReadFile(w + "/" + e.path)
		_, blob, _ := vpReadObject(g, []byte(e.hash))
		zzvp.Assert(r.Exit == 0 && ok && string(c) == string(blob), "C09: each named tracked file is byte-identical to its staged blob after restore")
	}
	zzvp.Assert(vpFsck() == "", "the repository is connected afterwards")
	zzvp.Done()
}
