package cmd

import (
	"github.com/JunNishimura/Goit/internal/object"
	"github.com/JunNishimura/Goit/internal/sha"
	"github.com/JunNishimura/Goit/internal/store"
	"github.com/JunNishimura/Goit/internal/zzvp"
)

func vpIndexOf(es []*store.Entry) *store.Index {
	return &store.Index{Header: store.Header{Signature: [4]byte{'D', 'I', 'R', 'C'}, Version: 1, EntryNum: uint32(len(es))}, Entries: es}
}

// vpPool: m distinct ascending paths (prefix-free); for each, membership in HEAD and in the index and the two ids are free.
func vpPool(m, depth, maxc int) (head, idx []*store.Entry) {
	// paths ascending and distinct; a path may be a directory prefix of another one as long as the two are not in the same
	// snapshot (a file replaced by a directory, or the reverse, between HEAD and the staging area)
	var all []*store.Entry
	for i := 0; i < m; i++ {
		p := vpPath("p"+string(rune('0'+i)), depth, maxc)
		if i > 0 {
			zzvp.Assume(string(all[i-1].Path) < p)
		}
		h := []byte{byte(0x10 + i), 0x20, 0x0a, 0, 1, 2, 3, 4, 5, 6, 7, 8, 9, 10, 11, 12, 13, 14, 15, byte(0xf0 + i)}
		all = append(all, store.NewEntry(sha.SHA1(h), []byte(p)))
	}
	conflict := func(set []*store.Entry, e *store.Entry) bool {
		c := false
		for _, o := range set {
			if vpHasDirPrefix(string(e.Path), string(o.Path)) || vpHasDirPrefix(string(o.Path), string(e.Path)) {
				c = true
			}
		}
		return c
	}
	for i, e := range all {
		inHead := zzvp.Bool("inHead" + string(rune('0'+i)))
		inIdx := zzvp.Bool("inIdx" + string(rune('0'+i)))
		if inHead {
			zzvp.Assume(!conflict(head, e))
			head = append(head, e)
		}
		if inIdx {
			zzvp.Assume(!conflict(idx, e))
			h2 := e.Hash
			if zzvp.Bool("changed" + string(rune('0'+i))) {
				h2 = sha.SHA1([]byte{byte(0x80 + i), 0x20, 0x0a, 0, 1, 2, 3, 4, 5, 6, 7, 8, 9, 10, 11, 12, 13, 14, 15, byte(0x70 + i)})
			}
			idx = append(idx, store.NewEntry(h2, e.Path))
		}
	}
	return
}

// VP_C07_Diff: DiffWithTree reports exactly the staged differences against the HEAD snapshot, each classified correctly, each once.
func VP_C07_Diff() {
	m := zzvp.Choose(zzvp.Param("pool", 3) + 1)
	head, idxEs := vpPool(m, zzvp.Param("depth", 2), zzvp.Param("complen", 2))
	g := vpGoit()
	obj, err := writeTreeObject(g, head)
	zzvp.Assume(err == nil && obj != nil)
	got, err := object.GetObject(g, obj.Hash)
	zzvp.Assume(err == nil)
	tree, err := object.NewTree(g, got)
	zzvp.Assume(err == nil)
	idx := vpIndexOf(idxEs)
	diffs, err := idx.DiffWithTree(tree)
	zzvp.Assert(err == nil, "comparing the staging area with the HEAD snapshot succeeds")
	// specification
	type want struct{ kind, path string }
	var ws []want
	for _, h := range head {
		var in *store.Entry
		for _, e := range idxEs {
			if string(e.Path) == string(h.Path) {
				in = e
			}
		}
		if in == nil {
			ws = append(ws, want{"deleted:", string(h.Path)})
		} else if string(in.Hash) != string(h.Hash) {
			ws = append(ws, want{"modified:", string(h.Path)})
		}
	}
	for _, e := range idxEs {
		found := false
		for _, h := range head {
			if string(e.Path) == string(h.Path) {
				found = true
			}
		}
		if !found {
			ws = append(ws, want{"new file:", string(e.Path)})
		}
	}
	ok := len(diffs) == len(ws)
	for _, w := range ws {
		n := 0
		for _, d := range diffs {
			if d.Dt.String() == w.kind && string(d.Entry.Path) == w.path {
				n++
			}
		}
		if n != 1 {
			ok = false
		}
	}
	zzvp.Assert(ok, "the staged-changes list is exactly {deleted, modified, new file} relative to HEAD, each path once")
	// isCommitNecessary is what `commit` uses to refuse an empty commit
	c := &object.Commit{Tree: obj.Hash}
	nec, err := isCommitNecessary(g, idx, c)
	zzvp.Assert(err == nil && nec == (len(ws) != 0), "a commit is deemed necessary iff the staging area differs from the HEAD snapshot")
	zzvp.Done()
}
