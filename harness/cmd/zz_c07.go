package cmd

import (
	"github.com/JunNishimura/Goit/internal/object"
	"github.com/JunNishimura/Goit/internal/sha"
	"github.com/JunNishimura/Goit/internal/store"
	"github.com/JunNishimura/Goit/internal/zzvp"
)

func vpIndexOf(es []*store.Entry) *store.Index {
	return &store.Index{Header: store.Header{Signature: [4]byte{'D', 'I', 'R', 'C'}, Version: 1, EntryNum: uint32(len(es))}, Entries: es}
}

// vpPool: m distinct ascending paths (prefix-free); for each, membership in HEAD and in the index and the two ids are free.
func vpPool(m, depth, maxc int) (head, idx []*store.Entry) {
	all := vpEntries(m, depth, maxc)
	for i, e := range all {
		inHead := zzvp.Bool("inHead" + string(rune('0'+i)))
		inIdx := zzvp.Bool("inIdx" + string(rune('0'+i)))
		if inHead {
			head = append(head, e)
		}
		if inIdx {
			h2 := e.Hash
			if zzvp.Bool("changed" + string(rune('0'+i))) {
				h2 = sha.SHA1([]byte{byte(0x80 + i), 0x20, 0x0a, 0, 1, 2, 3, 4, 5, 6, 7, 8, 9, 10, 11, 12, 13, 14, 15, byte(0x70 + i)})
			}
			idx = append(idx, store.NewEntry(h2, e.Path))
		}
	}
	return
}

// VP_C07_Diff: DiffWithTree reports exactly the staged differences against the HEAD snapshot, each classified correctly, each once.
func VP_C07_Diff() {
	m := zzvp.Choose(zzvp.Param("pool", 3) + 1)
	head, idxEs := vpPool(m, zzvp.Param("depth", 2), zzvp.Param("complen", 2))
	g := vpGoit()
	obj, err := writeTreeObject(g, head)
	zzvp.Assume(err == nil && obj != nil)
	got, err := object.GetObject(g, obj.Hash)
	zzvp.Assume(err == nil)
	tree, err := object.NewTree(g, got)
	zzvp.Assume(err == nil)
	idx := vpIndexOf(idxEs)
	diffs, err := idx.DiffWithTree(tree)
	zzvp.Assert(err == nil, "comparing the staging area with the HEAD snapshot succeeds")
	// specification
	type want struct{ kind, path string }
	var ws []want
	for _, h := range head {
		var in *store.Entry
		for _, e := range idxEs {
			if string(e.Path) == string(h.Path) {
				in = e
			}
		}
		if in == nil {
			ws = append(ws, want{"deleted:", string(h.Path)})
		} else if string(in.Hash) != string(h.Hash) {
			ws = append(ws, want{"modified:", string(h.Path)})
		}
	}
	for _, e := range idxEs {
		found := false
		for _, h := range head {
			if string(e.Path) == string(h.Path) {
				found = true
			}
		}
		if !found {
			ws = append(ws, want{"new file:", string(e.Path)})
		}
	}
	ok := len(diffs) == len(ws)
	for _, w := range ws {
		n := 0
		for _, d := range diffs {
			if d.Dt.String() == w.kind && string(d.Entry.Path) == w.path {
				n++
			}
		}
		if n != 1 {
			ok = false
		}
	}
	zzvp.Assert(ok, "the staged-changes list is exactly {deleted, modified, new file} relative to HEAD, each path once")
	// isCommitNecessary is what `commit` uses to refuse an empty commit
	c := &object.Commit{Tree: obj.Hash}
	nec, err := isCommitNecessary(g, idx, c)
	zzvp.Assert(err == nil && nec == (len(ws) != 0), "a commit is deemed necessary iff the staging area differs from the HEAD snapshot")
	zzvp.Done()
}
