package cmd

import (
	"github.com/JunNishimura/Goit/internal/zzvp"
)

func vpLogIDs(out string) []string {
	var ids []string
	for _, l := range vpSplitLines(out) {
		if len(l) == 47 && l[:7] == "commit " {
			ids = append(ids, l[7:])
		}
	}
	return ids
}

// VP_C14_Log: log -n k prints the min(k, length) newest commits of HEAD's parent chain, newest first, each once; default 5.
func VP_C14_Log() {
	vpInitRepo()
	w := zzvp.Root()
	n := 1 + zzvp.Choose(zzvp.Param("commits", 4))
	var chain []string // oldest first
	cyc := n // every commit has its own snapshot ...
	if n >= 3 && zzvp.Choose(2) == 1 {
		cyc = 2 // ... or the content alternates, so that commits two apart record the same tree
	}
	for i := 0; i < n; i++ {
		zzvp.WriteFile(w+"/f", []byte{byte('a' + i%cyc)})
		vpOK(zzvp.Run("add", "f"))
		vpOK(zzvp.Run("commit", "-m", "m"+string(rune('0'+i))))
		id, _, _ := vpBranch("main")
		chain = append(chain, vpHex(id))
		if i == 0 && zzvp.Choose(2) == 1 {
			// another branch sharing the first commit, with its own later commit: must not show up
			vpOK(zzvp.Run("switch", "-c", "side"))
			zzvp.WriteFile(w+"/g", []byte("s"))
			vpOK(zzvp.Run("add", "g"))
			vpOK(zzvp.Run("commit", "-m", "side"))
			vpOK(zzvp.Run("switch", "main"))
		}
	}
	// optionally: dirty staging area / work tree
	if zzvp.Choose(2) == 1 {
		zzvp.WriteFile(w+"/dirty", []byte("d"))
		vpOK(zzvp.Run("add", "dirty"))
		zzvp.WriteFile(w+"/f", []byte("zz"))
	}
	var r zzvp.Result
	k := 5
	if zzvp.Choose(2) == 0 {
		r = zzvp.Run("log")
	} else {
		k = zzvp.Int("k", -2, 100)
		zzvp.SetIntFlag("max-count", k)
		r = zzvp.Run("log")
	}
	zzvp.Assert(r.Exit == 0, "log succeeds when there is a commit")
	got := vpLogIDs(r.Out)
	want := k
	if want < 0 {
		want = 0
	}
	if want > n {
		want = n
	}
	ok := len(got) == want
	if ok {
		for i := 0; i < want; i++ {
			if got[i] != chain[n-1-i] {
				ok = false
			}
		}
	}
	zzvp.Assert(ok, "log lists exactly the min(k, length) most recent commits of HEAD's parent chain, newest first, each once")
	zzvp.Done()
}


// VP_C14_Fields: every listed commit is printed with its own id, author and message — also when a commit object is larger
// than the buffers of the standard library (a message of several lines and more than 4 KiB) and next to short free messages.
func VP_C14_Fields() {
	vpInitRepo()
	w := zzvp.Root()
	long := "fix the frobnicator\n\n"
	for i := 0; i < zzvp.Param("biglen", 4200); i++ {
		long += "z"
	}
	long += "\nlast line"
	// a short free message that may begin and end with blanks (log must not trim it)
	free := zzvp.Str("fm", 1+zzvp.Choose(zzvp.Param("msglen", 2)), " -~")
	msgs := []string{long, free, "third"}
	if zzvp.Choose(2) == 1 {
		msgs = []string{free, long, "third"}
	}
	var ids []string
	for i, m := range msgs {
		zzvp.WriteFile(w+"/f", []byte{byte('a' + i)})
		vpOK(zzvp.Run("add", "f"))
		vpOK(zzvp.Run("commit", "-m", m))
		id, _, _ := vpBranch("main")
		ids = append(ids, vpHex(id))
	}
	r := zzvp.Run("log")
	zzvp.Assert(r.Exit == 0, "log succeeds when there is a commit")
	out := r.Out
	// newest first: cut the output at the "commit <id>" lines, in order
	pos := make([]int, len(ids)+1)
	ok := true
	from := 0
	for k := 0; k < len(ids); k++ {
		head := "commit " + ids[len(ids)-1-k] + "\n"
		p := vpIndexFrom(out, head, from)
		if p < 0 {
			ok = false
			break
		}
		pos[k] = p
		from = p + len(head)
	}
	pos[len(ids)] = len(out)
	zzvp.Assert(ok && pos[0] == 0, "log lists exactly the min(k, length) most recent commits of HEAD's parent chain, newest first, each once")
	if !ok {
		return
	}
	for k := 0; k < len(ids); k++ {
		seg := out[pos[k]:pos[k+1]]
		pre := "commit " + ids[len(ids)-1-k] + "\nAuthor: A U Thor <a@b.cd>\nDate: "
		suf := "\n\n\t" + msgs[len(ids)-1-k] + "\n\n"
		good := len(seg) >= len(pre)+len(suf) && seg[:len(pre)] == pre && seg[len(seg)-len(suf):] == suf
		zzvp.Assert(good, "each listed commit is printed with its own id, author and message")
	}
	zzvp.Done()
}

func vpIndexFrom(s, sub string, from int) int {
	for i := from; i+len(sub) <= len(s); i++ {
		if s[i:i+len(sub)] == sub {
			return i
		}
	}
	return -1
}
