package cmd

import (
	"github.com/JunNishimura/Goit/internal/zzvp"
)

func vpLogIDs(out string) []string {
	var ids []string
	for _, l := range vpSplitLines(out) {
		if len(l) == 47 && l[:7] == "commit " {
			ids = append(ids, l[7:])
		}
	}
	return ids
}

// VP_C14_Log: log -n k prints the min(k, length) newest commits of HEAD's parent chain, newest first, each once; default 5.
func VP_C14_Log() {
	vpInitRepo()
	w := zzvp.Root()
	n := 1 + zzvp.Choose(zzvp.Param("commits", 4))
	var chain []string // oldest first
	cyc := n // every commit has its own snapshot ...
	if n >= 3 && zzvp.Choose(2) == 1 {
		cyc = 2 // ... or the content alternates, so that commits two apart record the same tree
	}
	for i := 0; i < n; i++ {
		zzvp.WriteFile(w+"/f", []byte{byte('a' + i%cyc)})
		vpOK(zzvp.Run("add", "f"))
		vpOK(zzvp.Run("commit", "-m", "m"+string(rune('0'+i))))
		id, _, _ := vpBranch("main")
		chain = append(chain, vpHex(id))
		if i == 0 && zzvp.Choose(2) == 1 {
			// another branch sharing the first commit, with its own later commit: must not show up
			vpOK(zzvp.Run("switch", "-c", "side"))
			zzvp.WriteFile(w+"/g", []byte("s"))
			vpOK(zzvp.Run("add", "g"))
			vpOK(zzvp.Run("commit", "-m", "side"))
			vpOK(zzvp.Run("switch", "main"))
		}
	}
	// optionally: dirty staging area / work tree
	if zzvp.Choose(2) == 1 {
		zzvp.WriteFile(w+"/dirty", []byte("d"))
		vpOK(zzvp.Run("add", "dirty"))
		zzvp.WriteFile(w+"/f", []byte("zz"))
	}
	var r zzvp.Result
	k := 5
	if zzvp.Choose(2) == 0 {
		r = zzvp.Run("log")
	} else {
		k = zzvp.Int("k", -2, 100)
		zzvp.SetIntFlag("max-count", k)
		r = zzvp.Run("log")
	}
	zzvp.Assert(r.Exit == 0, "log succeeds when there is a commit")
	got := vpLogIDs(r.Out)
	want := k
	if want < 0 {
		want = 0
	}
	if want > n {
		want = n
	}
	ok := len(got) == want
	if ok {
		for i := 0; i < want; i++ {
			if got[i] != chain[n-1-i] {
				ok = false
			}
		}
	}
	zzvp.Assert(ok, "log lists exactly the min(k, length) most recent commits of HEAD's parent chain, newest first, each once")
	zzvp.Done()
}

