package cmd

import (
	"github.com/JunNishimura/Goit/internal/object"
	"github.com/JunNishimura/Goit/internal/sha"
	"github.com/JunNishimura/Goit/internal/zzvp"
)

// VP_C14_Walk: walkHistory over parent chains of up to 20 commits written directly into the object store (the commit
// command is not involved, so long histories stay cheap); -n is a free 64-bit integer.
func VP_C14_Walk() {
	g := vpGoit()
	n := 1 + zzvp.Choose(zzvp.Param("chain", 20))
	tree, err := object.NewObject(object.TreeObject, []byte{})
	zzvp.Assume(err == nil && tree.Write(g) == nil)
	var ids []sha.SHA1 // oldest first
	for i := 0; i < n; i++ {
		text := "tree " + tree.Hash.String() + "\n"
		if i > 0 {
			text += "parent " + ids[i-1].String() + "\n"
		}
		text += "author A U Thor <a@b.cd> 170000000" + string(rune('0'+i%10)) + " +0000\ncommitter A U Thor <a@b.cd> 1700000000 +0000\n\nc" + string(rune('a'+i%26)) + "\n"
		o, err := object.NewObject(object.CommitObject, []byte(text))
		zzvp.Assume(err == nil && o.Write(g) == nil)
		ids = append(ids, o.Hash)
	}
	k := zzvp.Int("k", -3, 60)
	maxCount = k
	var got []string
	werr := walkHistory(g, ids[n-1], func(c *object.Commit) error {
		got = append(got, c.Hash.String())
		return nil
	})
	zzvp.Assert(werr == nil, "walking a history Goit can read succeeds")
	want := k
	if want < 0 {
		want = 0
	}
	if want > n {
		want = n
	}
	ok := len(got) == want
	if ok {
		for i := 0; i < want; i++ {
			if got[i] != ids[n-1-i].String() {
				ok = false
			}
		}
	}
	zzvp.Assert(ok, "the walk visits exactly the min(k, length) most recent commits of the parent chain, newest first, each once")
	zzvp.Done()
}
