package cmd

import (
	"github.com/JunNishimura/Goit/internal/zzvp"
)

// vpCatalogue builds one of the repository states Goit itself can produce.
func vpCatalogue(k int) {
	w := zzvp.Root()
	switch k {
	case 0: // not a repository at all
	case 1: // freshly initialised, nothing staged
		vpInitRepo()
	case 2: // files staged, no commit yet
		vpInitRepo()
		zzvp.WriteFile(w+"/a", []byte("1"))
		vpOK(zzvp.Run("add", "a"))
	case 3: // one commit
		vpInitRepo()
		zzvp.WriteFile(w+"/a", []byte("1"))
		zzvp.WriteFile(w+"/d/b", []byte("2"))
		vpOK(zzvp.Run("add", "a", "d"))
		vpOK(zzvp.Run("commit", "-m", "c1"))
	case 4: // staging area emptied and committed (empty snapshot)
		vpInitRepo()
		zzvp.WriteFile(w+"/a", []byte("1"))
		vpOK(zzvp.Run("add", "a"))
		vpOK(zzvp.Run("commit", "-m", "c1"))
		vpOK(zzvp.Run("rm", "a"))
		vpOK(zzvp.Run("commit", "-m", "empty"))
	case 5: // renamed branch + second branch
		vpInitRepo()
		zzvp.WriteFile(w+"/a", []byte("1"))
		vpOK(zzvp.Run("add", "a"))
		vpOK(zzvp.Run("commit", "-m", "c1"))
		vpOK(zzvp.Run("branch", "dev"))
		vpOK(zzvp.Run("branch", "-r", "trunk"))
	case 7: // two branches, HEAD on the one that sorts first
		vpInitRepo()
		zzvp.WriteFile(w+"/a", []byte("1"))
		vpOK(zzvp.Run("add", "a"))
		vpOK(zzvp.Run("commit", "-m", "c1"))
		vpOK(zzvp.Run("branch", "dev"))
		vpOK(zzvp.Run("branch", "-r", "trunk"))
		vpOK(zzvp.Run("switch", "dev"))
	case 8: // a name that was a file in the first commit and is a directory in the second (and the reverse)
		vpInitRepo()
		zzvp.WriteFile(w+"/a", []byte("1"))
		zzvp.WriteFile(w+"/d/b", []byte("2"))
		vpOK(zzvp.Run("add", "a", "d"))
		vpOK(zzvp.Run("commit", "-m", "c1"))
		vpOK(zzvp.Run("rm", "a"))
		vpOK(zzvp.Run("rm", "d"))
		zzvp.RemoveAll(w + "/d")
		zzvp.WriteFile(w+"/a/b/c", []byte("3"))
		zzvp.WriteFile(w+"/d", []byte("4"))
		vpOK(zzvp.Run("add", "a", "d"))
		vpOK(zzvp.Run("commit", "-m", "c2"))
	case 6: // identity never configured
		vpOK(zzvp.Run("init"))
		zzvp.WriteFile(w+"/a", []byte("1"))
		vpOK(zzvp.Run("add", "a"))
	}
}

const vpArgAlpha = "a-z0-9 (+_.@{}*[:-"

func vpFreeArg(name string, maxLen int) string {
	n := 1 + zzvp.Choose(maxLen)
	s := zzvp.Str(name+"0", 1, "a-z0-9 (+_.@{}*[:")
	if n > 1 {
		s += zzvp.Str(name+"1", n-1, vpArgAlpha)
	}
	return s
}

// VP_C18_AnyCmd: every sub-command, flag combination and argument list ends with status 0 or 1; refusals change nothing.
func VP_C18_AnyCmd() {
	// the states explored are the set bits of "statemask" (default: all nine)
	mask := zzvp.Param("statemask", 511)
	var states []int
	for i := 0; i < 9; i++ {
		if mask&(1<<i) != 0 {
			states = append(states, i)
		}
	}
	vpCatalogue(states[zzvp.Choose(len(states))])
	w := zzvp.Root()
	s0 := zzvp.Snapshot(w)
	nargs := zzvp.Choose(zzvp.Param("maxargs", 2) + 1)
	var args []string
	for i := 0; i < nargs; i++ {
		if i == 1 {
			// a second argument: a repetition of the first, an existing path or an unknown one (surplus / repeated arguments)
			args = append(args, []string{args[0], "a", "nosuch"}[zzvp.Choose(3)])
			continue
		}
		switch zzvp.Choose(5) {
		case 0:
			args = append(args, vpFreeArg("arg"+string(rune('0'+i)), zzvp.Param("arglen", 2)))
		case 1:
			args = append(args, []string{"a", "d", "d/b", "nosuch", "a/b", "."}[zzvp.Choose(6)])
		case 2:
			args = append(args, []string{"main", "dev", "trunk", "HEAD", "refs/heads/main"}[zzvp.Choose(5)])
		case 3:
			if zzvp.Choose(2) == 0 {
				args = append(args, "HEAD@{"+zzvp.Str("p"+string(rune('0'+i)), 1, "0-9")+"}")
			} else {
				// numbers around the limits of the integer types
				args = append(args, "HEAD@{"+[]string{"9223372036854775808", "18446744073709551615", "99999999999999999999999", "-1"}[zzvp.Choose(4)]+"}")
			}
		default:
			args = append(args, zzvp.Str("hex"+string(rune('0'+i)), 39+zzvp.Choose(3), "0-9a-f"))
		}
	}
	cmds := []string{"init", "add", "rm", "commit", "status", "log", "branch", "switch", "reset", "restore", "cat-file", "hash-object",
		"ls-files", "rev-parse", "update-ref", "write-tree", "config", "reflog", "version-flag"}
	ci := zzvp.Choose(len(cmds))
	if only := zzvp.Param("onlycmd", -1); only >= 0 {
		ci = only
	}
	c := cmds[ci]
	argv := []string{c}
	readOnly := false
	switch c {
	case "commit":
		argv = append(argv, "-m", "msg")
	case "branch":
		switch zzvp.Choose(4) {
		case 1:
			argv = append(argv, "--list")
		case 2:
			argv = append(argv, "-r", vpFreeArg("rn", 2))
		case 3:
			argv = append(argv, "-d", vpFreeArg("dn", 2))
		}
	case "switch":
		if zzvp.Choose(2) == 1 {
			argv = append(argv, "-c", vpFreeArg("cn", 2))
		}
	case "reset":
		argv = append(argv, []string{"--soft", "--mixed", "--hard", "--soft --hard"}[zzvp.Choose(3)])
	case "restore":
		if zzvp.Choose(2) == 1 {
			argv = append(argv, "--staged")
		}
	case "cat-file":
		argv = append(argv, []string{"-t", "-p"}[zzvp.Choose(2)])
		readOnly = true
	case "ls-files":
		if zzvp.Choose(2) == 1 {
			argv = append(argv, "-s")
		}
		readOnly = true
	case "config":
		if zzvp.Choose(2) == 1 {
			argv = append(argv, "--global")
		}
		if zzvp.Choose(2) == 1 {
			// identifiers shaped like parts of the file format
			args = []string{[]string{"a=b\nc.k", "[x].k", "a.b=c", ".k", "s.", "a]b.k", "u\n[v].k"}[zzvp.Choose(7)], "v"}
		}
	case "status", "log", "rev-parse", "reflog", "hash-object":
		readOnly = true
	case "version-flag":
		argv = []string{"status"}
		readOnly = true
	}
	argv = append(argv, args...)
	r := zzvp.Run(argv...)
	zzvp.Assert(r.Exit == 0 || r.Exit == 1, "the process ends with exit status 0 or 1, never with a Go run-time panic")
	if readOnly {
		zzvp.Assert(zzvp.SnapEq(s0, zzvp.Snapshot(w)), "a read-only command changes nothing")
	} else if zzvp.Param("followup", 1) == 1 {
		// whatever state the command left (also when it was refused half-way) is a state Goit produced: the commands
		// that read HEAD, the branches, the journal and the staging area must not crash on it
		for _, f := range [][]string{{"status"}, {"log"}, {"reflog"}, {"branch", "--list"}, {"reset", "--soft", "HEAD@{0}"}, {"add", "."}, {"commit", "-m", "after"}} {
			r2 := zzvp.Run(f...)
			zzvp.Assert(r2.Exit == 0 || r2.Exit == 1, "no follow-up command crashes on the state the command left behind")
		}
	}
	zzvp.Done()
}
