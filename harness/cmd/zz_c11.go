package cmd

import (
	"github.com/JunNishimura/Goit/internal/zzvp"
)

// vpReflogLines: "<7hex> [(refs)] HEAD@{n}: kind: message" -> (short id, kind) per position
type vpRl struct{ short, kind, raw string }

func vpParseReflog(out string) []vpRl {
	var rs []vpRl
	for _, l := range vpSplitLines(out) {
		if len(l) < 8 {
			continue
		}
		r := vpRl{short: l[:7], raw: l}
		// find "HEAD@{" then ": " then kind up to next ":"
		for i := 0; i+6 <= len(l); i++ {
			if l[i:i+6] == "HEAD@{" {
				j := i
				for j < len(l) && l[j] != '}' {
					j++
				}
				if j+3 < len(l) {
					k := j + 3
					e := k
					for e < len(l) && l[e] != ':' {
						e++
					}
					r.kind = l[k:e]
				}
				break
			}
		}
		rs = append(rs, r)
	}
	return rs
}

// vpStripPos removes the "HEAD@{n}" label and the decoration so that shifted entries can be compared
func vpEntryBody(l string) string {
	for i := 0; i+6 <= len(l); i++ {
		if l[i:i+6] == "HEAD@{" {
			j := i
			for j < len(l) && l[j] != '}' {
				j++
			}
			return l[:7] + l[j:]
		}
	}
	return l
}

// VP_C11_Cli: every successful commit / switch / reset appends an entry; earlier entries keep content and order.
func VP_C11_Cli() {
	vpInitRepo()
	w := zzvp.Root()
	msg := zzvp.Str("msg", zzvp.Choose(zzvp.Param("msglen", 3)+1), vpMsgAlpha)
	if zzvp.Choose(2) == 1 {
		// a first line of several thousand bytes made of words (longer than the 4 KiB buffers of the standard library)
		var lb []byte
		for i := 0; i < zzvp.Param("longline", 900); i++ {
			lb = append(lb, 'w', 'o', 'r', 'd', byte('0'+i%10), ' ')
		}
		msg = string(lb)
	}
	zzvp.WriteFile(w+"/f", []byte("1"))
	vpOK(zzvp.Run("add", "f"))
	vpOK(zzvp.Run("commit", "-m", msg))
	// the branches that the history renames to, creates and deletes, or switches to: ordinary names, or the legal name "HEAD"
	// (its per-branch journal logs/refs/heads/HEAD must not be confused with the journal of HEAD itself)
	trunk, gone, topic := "trunk", "gone", "topic"
	switch zzvp.Choose(3) {
	case 1:
		trunk, gone, topic = "HEAD", "HEAD", "HEAD"
	case 2:
		// a name with a printf verb and a trailing blank (decorations of reflog entries carry branch names)
		trunk, gone, topic = "100%d ", "100%d ", "100%d "
	}
	vpOK(zzvp.Run("branch", "dev")) // stays at the first commit
	zzvp.WriteFile(w+"/f", []byte("2"))
	vpOK(zzvp.Run("add", "f"))
	vpOK(zzvp.Run("commit", "-m", "second"))
	switch zzvp.Choose(3) {
	case 1:
		vpOK(zzvp.Run("branch", "-r", trunk)) // journal entries without target commit
	case 2:
		vpOK(zzvp.Run("branch", gone))
		vpOK(zzvp.Run("branch", "-d", gone)) // a deleted branch
	}
	b := zzvp.Run("reflog")
	zzvp.Assert(b.Exit == 0, "reflog works after any history Goit produced, whatever the commit messages contain")
	before := vpParseReflog(b.Out)
	cur := vpHeadRef()
	var r zzvp.Result
	kind := ""
	switch zzvp.Choose(4) {
	case 0:
		zzvp.WriteFile(w+"/f", []byte("3"))
		vpOK(zzvp.Run("add", "f"))
		r = zzvp.Run("commit", "-m", zzvp.Str("msg2", zzvp.Choose(zzvp.Param("msglen", 3)+1), vpMsgAlpha))
		kind = "commit"
	case 1:
		zzvp.Assume(vpHeadRef() != topic)
		r = zzvp.Run("switch", "-c", topic)
		kind = "checkout"
	case 2:
		// to a branch that points to another commit than the one being left
		r = zzvp.Run("switch", "dev")
		kind = "checkout"
	default:
		// reset to the oldest entry that has a target commit (the first commit)
		r = zzvp.Run("reset", "--soft", "HEAD@{"+string(rune('0'+len(before)-1))+"}")
		kind = "reset"
	}
	zzvp.Assert(r.Exit == 0, "the action succeeds")
	if r.Exit != 0 {
		return
	}
	a := zzvp.Run("reflog")
	zzvp.Assert(a.Exit == 0, "reflog still works after the action")
	after := vpParseReflog(a.Out)
	added := len(after) - len(before)
	zzvp.Assert(added >= 1, "the action adds at least one journal entry")
	if added < 1 {
		return
	}
	tip, _, _ := vpBranch(vpHeadRef())
	zzvp.Assert(after[0].short == vpHex(tip)[:7] && after[0].kind == kind, "HEAD@{0} shows the commit HEAD now resolves to and the kind of action")
	ok := true
	for i := range before {
		if vpEntryBody(before[i].raw) != vpEntryBody(after[i+added].raw) && before[i].short != after[i+added].short {
			ok = false
		}
		if before[i].short != after[i+added].short || before[i].kind != after[i+added].kind {
			ok = false
		}
	}
	zzvp.Assert(ok, "earlier entries keep their content and relative order and merely shift by the number of entries added")
	_ = cur
	zzvp.Done()
}
