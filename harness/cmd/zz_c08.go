package cmd

import (
	"github.com/JunNishimura/Goit/internal/zzvp"
)

// vpReflogIDs parses the output of `goit reflog`: the 7-hex prefix shown at each position.
func vpReflogShort(out string) []string {
	var ids []string
	for _, l := range vpSplitLines(out) {
		if len(l) >= 7 {
			ids = append(ids, l[:7])
		}
	}
	return ids
}

// VP_C08_Reset: reset --soft|--mixed|--hard HEAD@{n} from a history of 2 commits (+ optional second branch), with a perturbed work tree.
func VP_C08_Reset() {
	vpInitRepo()
	w, g := zzvp.Root(), vpG()
	// two commits over two files, one in a directory
	f1 := vpPath("fa", 1, zzvp.Param("complen", 1))
	f2 := vpComp("fd", zzvp.Param("complen", 1)) + "/" + vpComp("fb", zzvp.Param("complen", 1))
	if zzvp.Choose(2) == 1 {
		f2 = vpComp("fd", zzvp.Param("complen", 1)) + "/" + vpComp("fe", 1) + "/" + vpComp("fb", zzvp.Param("complen", 1))
	}
	zzvp.Assume(f1 != f2 && !vpHasDirPrefix(f2, f1))
	// file contents are fixed (reset does not depend on them) unless symcontent=1
	c1a, c1b := []byte("A"), []byte("B")
	if zzvp.Param("symcontent", 0) == 1 {
		c1a, c1b = zzvp.Bytes("c1a", 1, ""), zzvp.Bytes("c1b", 1, "")
	}
	zzvp.WriteFile(w+"/"+f1, c1a)
	zzvp.WriteFile(w+"/"+f2, c1b)
	vpOK(zzvp.Run("add", f1, f2))
	vpOK(zzvp.Run("commit", "-m", "c1"))
	first, _, _ := vpBranch("main")
	vpOK(zzvp.Run("branch", "dev"))
	c2a := []byte("C")
	if zzvp.Param("symcontent", 0) == 1 {
		c2a = zzvp.Bytes("c2a", 1, "")
	}
	switch zzvp.Choose(2 + 2*zzvp.Param("kindchange", 1)) {
	case 0:
		zzvp.Assume(string(c2a) != string(c1a))
		zzvp.WriteFile(w+"/"+f1, c2a)
		vpOK(zzvp.Run("add", f1))
	case 2:
		// the second commit replaces the file f1 by a directory of that name
		vpOK(zzvp.Run("rm", f1))
		f1k := f1 + "/" + vpComp("fk", 1)
		zzvp.WriteFile(w+"/"+f1k, c2a)
		vpOK(zzvp.Run("add", f1))
		f1 = f1k
	case 3:
		// the second commit replaces the top directory of f2 by a file of that name
		d := f2
		for i := len(f2) - 1; i >= 0; i-- {
			if f2[i] == '/' {
				d = f2[:i]
			}
		}
		zzvp.Assume(d != f1)
		vpOK(zzvp.Run("rm", f2))
		zzvp.RemoveAll(w + "/" + d)
		zzvp.WriteFile(w+"/"+d, c2a)
		vpOK(zzvp.Run("add", d))
		f2 = d
	default:
		// the second commit renames f1 (same bytes under another name)
		f1b := vpPath("fr", 1, zzvp.Param("complen", 1))
		zzvp.Assume(f1b != f1 && f1b != f2 && !vpHasDirPrefix(f2, f1b))
		vpOK(zzvp.Run("rm", f1))
		zzvp.WriteFile(w+"/"+f1b, c1a)
		vpOK(zzvp.Run("add", f1b))
		f1 = f1b
	}
	vpOK(zzvp.Run("commit", "-m", "c2"))
	second, _, _ := vpBranch("main")
	// earlier switches / an earlier reset leave journal entries of other kinds before the reset under test
	switch zzvp.Choose(zzvp.Param("histories", 3)) {
	case 1:
		vpOK(zzvp.Run("switch", "-c", "topic"))
		vpOK(zzvp.Run("switch", "main"))
	case 2:
		vpOK(zzvp.Run("reset", "--soft", "HEAD@{0}"))
	}
	// perturb the work tree
	untracked := w + "/" + vpComp("un", 1) + ".u"
	zzvp.WriteFile(untracked, []byte("U"))
	switch zzvp.Choose(4) {
	case 1:
		zzvp.WriteFile(w+"/"+f1, []byte("zz"))
	case 2:
		zzvp.RemoveAll(w + "/" + f2)
	case 3:
		// remove the whole directory of f2
		// (the top-most directory: every level above the file is missing afterwards)
		d := f2
		for i := len(f2) - 1; i >= 0; i-- {
			if f2[i] == '/' {
				d = f2[:i]
			}
		}
		zzvp.RemoveAll(w + "/" + d)
	}
	// staged changes that belong to neither commit: a new file that sorts after (or before) every committed path, a removal
	switch zzvp.Choose(1 + 3*zzvp.Param("stagedextra", 1)) {
	case 1:
		zzvp.WriteFile(w+"/zzz", []byte("Z"))
		vpOK(zzvp.Run("add", "zzz"))
	case 2:
		zzvp.WriteFile(w+"/ 0", []byte("Z"))
		vpOK(zzvp.Run("add", " 0"))
	case 3:
		if zzvp.Exists(w + "/" + f1) {
			vpOK(zzvp.Run("rm", f1))
		}
	}
	shown := vpReflogShort(zzvp.Run("reflog").Out)
	// argument: valid position, out-of-range position, or malformed text
	var arg string
	pos := -1
	switch zzvp.Choose(4) {
	case 3:
		// a well-formed position with extra text before or after it
		arg = zzvp.Str("pre", zzvp.Choose(2), "HEAD@{}0-9x") + "HEAD@{" + zzvp.Str("d2", 1, "0-9") + "}" + zzvp.Str("suf", zzvp.Choose(2), "HEAD@{}0-9x")
		zzvp.Assume(len(arg) > 8)
	case 0:
		pos = zzvp.Choose(5)
		arg = "HEAD@{" + string(rune('0'+pos)) + "}"
	case 1:
		arg = "HEAD@{" + zzvp.Str("digit", 1, "0-9") + "}"
		pos = int(arg[6] - '0')
	default:
		arg = zzvp.Str("junk", 1+zzvp.Choose(zzvp.Param("junk", 3)), "HEAD@{}0-9x")
	}
	mode := zzvp.Choose(3)
	flag := []string{"--soft", "--mixed", "--hard"}[mode]
	idxBefore, _ := vpReadIndex()
	s0 := zzvp.Snapshot(w)
	r := zzvp.Run("reset", flag, arg)
	zzvp.Assert(r.Exit == 0 || r.Exit == 1, "reset ends with status 0 or 1")
	valid := pos >= 0 && pos < len(shown) && len(arg) == 8
	if !valid {
		zzvp.Assert(r.Exit == 1, "a malformed argument or a position out of range is refused")
		zzvp.Assert(zzvp.SnapEq(s0, zzvp.Snapshot(w)), "a refused reset changes nothing")
		zzvp.Done()
		return
	}
	zzvp.Assert(r.Exit == 0, "a valid reflog position is accepted")
	if r.Exit != 0 {
		return
	}
	tip, _, wf := vpBranch("main")
	zzvp.Assert(wf && vpHex(tip)[:7] == shown[pos], "the current branch moves to exactly the commit reflog displays at position n")
	zzvp.Assert(vpHeadRef() == "main", "HEAD keeps naming the same branch")
	dev, _, _ := vpBranch("dev")
	zzvp.Assert(string(dev) == string(first), "every other branch is unchanged")
	if topic, exists, _ := vpBranch("topic"); exists {
		zzvp.Assert(string(topic) == string(second), "every other branch is unchanged (also one created by an earlier switch -c)")
	}
	_ = second
	// the target snapshot, by the independent decoder
	_, cdata, _ := vpReadObject(g, tip)
	target, tok := vpDecodeTree(g, vpParseCommit(cdata).tree, "", 0)
	zzvp.Assert(tok, "the target commit's snapshot decodes")
	idxAfter, _ := vpReadIndex()
	switch mode {
	case 0:
		zzvp.Assert(vpSamePairList(idxBefore, idxAfter), "--soft leaves the staging area unchanged")
		zzvp.Assert(zzvp.SnapEq(s0, zzvp.Snapshot(w), g+"/refs/heads/main", g+"/logs"), "--soft changes no working file")
	case 1:
		zzvp.Assert(vpSamePairList(idxAfter, target), "--mixed makes the staging area equal to the target snapshot")
		zzvp.Assert(zzvp.SnapEq(s0, zzvp.Snapshot(w), g+"/refs/heads/main", g+"/logs", g+"/index"), "--mixed changes no working file")
	default:
		zzvp.Assert(vpSamePairList(idxAfter, target), "--hard makes the staging area equal to the target snapshot")
		for _, e := range target {
			_, blob, _ := vpReadObject(g, []byte(e.hash))
			c, ok := zzvp.ReadFile(w + "/" + e.path)
			zzvp.Assert(ok && string(c) == string(blob), "--hard makes every file of the snapshot exist with the committed bytes, recreating missing directories")
		}
		u, ok := zzvp.ReadFile(untracked)
		zzvp.Assert(ok && string(u) == "U", "--hard never touches a file that was never tracked")
	}
	zzvp.Assert(vpFsck() == "", "the repository is connected after reset")
	zzvp.Done()
}

// VP_C08_Twins: the target snapshot holds two directories with identical content (one tree id for both): --mixed and
// --hard re-install both directories under their own names.
func VP_C08_Twins() {
	vpInitRepo()
	w, g := zzvp.Root(), vpG()
	maxc := zzvp.Param("complen", 1)
	d1, d2, leaf := vpComp("ta", maxc), vpComp("tb", maxc), vpComp("tl", maxc)
	zzvp.Assume(d1 != d2)
	if zzvp.Choose(2) == 1 {
		// nested twins: p/d1/leaf and p/d2/leaf
		p := vpComp("tp", 1)
		d1, d2 = p+"/"+d1, p+"/"+d2
	}
	f1, f2 := d1+"/"+leaf, d2+"/"+leaf
	zzvp.WriteFile(w+"/"+f1, []byte("T"))
	zzvp.WriteFile(w+"/"+f2, []byte("T"))
	vpOK(zzvp.Run("add", "."))
	vpOK(zzvp.Run("commit", "-m", "twins"))
	first, _, _ := vpBranch("main")
	zzvp.WriteFile(w+"/"+f1, []byte("U"))
	vpOK(zzvp.Run("add", f1))
	vpOK(zzvp.Run("commit", "-m", "second"))
	if zzvp.Choose(2) == 1 {
		zzvp.RemoveAll(w + "/" + d2)
	}
	mode := zzvp.Choose(2)
	r := zzvp.Run("reset", []string{"--mixed", "--hard"}[mode], "HEAD@{1}")
	zzvp.Assert(r.Exit == 0, "a valid reflog position is accepted")
	tip, _, _ := vpBranch("main")
	zzvp.Assert(string(tip) == string(first), "the current branch moves to exactly the commit reflog displays at position n")
	_, cdata, _ := vpReadObject(g, tip)
	target, tok := vpDecodeTree(g, vpParseCommit(cdata).tree, "", 0)
	idx, iok := vpReadIndex()
	zzvp.Assert(tok && iok && len(target) == 2 && vpSamePairList(idx, target), "the staging area equals the target snapshot, both twin directories included")
	if mode == 1 {
		for _, e := range target {
			c, ok := zzvp.ReadFile(w + "/" + e.path)
			zzvp.Assert(ok && string(c) == "T", "--hard makes every file of the snapshot exist with the committed bytes, recreating missing directories")
		}
	}
	zzvp.Done()
}
