package cmd

import "github.com/JunNishimura/Goit/internal/zzvp"

// vpInitRepo: `goit init` + identity, in the model's empty work tree.
func vpInitRepo() {
	vpOK(zzvp.Run("init"))
	vpOK(zzvp.Run("config", "user.name", "A U Thor"))
	vpOK(zzvp.Run("config", "user.email", "a@b.cd"))
}

func VP_Smoke() {
	vpInitRepo()
	w := zzvp.Root()
	zzvp.WriteFile(w+"/a.txt", []byte("hello\n"))
	zzvp.WriteFile(w+"/d/b.txt", []byte("world\n"))
	r := zzvp.Run("add", "a.txt", "d")
	zzvp.Assert(r.Exit == 0, "add ok")
	r = zzvp.Run("ls-files")
	zzvp.Assert(r.Exit == 0 && r.Out == "a.txt\nd/b.txt\n", "ls-files lists both")
	r = zzvp.Run("commit", "-m", "first")
	zzvp.Assert(r.Exit == 0, "commit ok")
	r = zzvp.Run("commit", "-m", "again")
	zzvp.Assert(r.Exit == 1, "second commit refused")
	r = zzvp.Run("status")
	zzvp.Assert(r.Exit == 0, "status ok")
	zzvp.Note(r.Out)
	r = zzvp.Run("log")
	zzvp.Assert(r.Exit == 0, "log ok")
	zzvp.Note(r.Out)
	r = zzvp.Run("reflog")
	zzvp.Assert(r.Exit == 0, "reflog ok")
	zzvp.Note(r.Out)
	r = zzvp.Run("branch", "dev")
	zzvp.Assert(r.Exit == 0, "branch ok")
	r = zzvp.Run("switch", "dev")
	zzvp.Assert(r.Exit == 0, "switch ok")
	r = zzvp.Run("rev-parse", "HEAD", "main")
	zzvp.Assert(r.Exit == 0, "rev-parse ok")
	zzvp.Note(r.Out)
	zzvp.Done()
}

// vpOK: a scenario-prefix command must succeed for the scenario to continue; a crash is a violation, not an excluded case.
func vpOK(r zzvp.Result) {
	zzvp.Assert(r.Exit != 2, "no command of the scenario crashes")
	zzvp.Assume(r.Exit == 0)
}
