package cmd

import (
	"github.com/JunNishimura/Goit/internal/zzvp"
)

// vpState: a reachable (staging area, work tree) pair over a pool of symbolic paths:
// every file is created and staged, then individually left alone, edited, or deleted; plus optional untracked files.
type vpTracked struct {
	path    string
	staged  []byte // bytes at staging time
	current []byte // bytes on disk now (nil: deleted)
	exists  bool
	nowDir  bool // replaced on disk by a directory holding an untracked file
}

func vpBuildState(n, depth, maxc int, untracked bool) ([]vpTracked, []vpFile) {
	vpInitRepo()
	w := zzvp.Root()
	var ts []vpTracked
	for i := 0; i < n; i++ {
		id := string(rune('0' + i))
		p := vpPath("t"+id, depth, maxc)
		for _, o := range ts {
			zzvp.Assume(o.path != p && !vpHasDirPrefix(p, o.path) && !vpHasDirPrefix(o.path, p))
		}
		// staged bytes are fixed and pairwise distinct; the later edits are free (and may equal another file's bytes)
		c := []byte{byte('A' + i)}
		zzvp.WriteFile(w+"/"+p, c)
		vpOK(zzvp.Run("add", p))
		ts = append(ts, vpTracked{path: p, staged: c, current: c, exists: true})
	}
	var us []vpFile
	for i := range ts {
		switch zzvp.Choose(3 + zzvp.Param("kindchange", 0)) {
		case 3:
			// the tracked file has become a directory that holds an untracked file
			zzvp.RemoveAll(w + "/" + ts[i].path)
			zzvp.WriteFile(w+"/"+ts[i].path+"/x", []byte("X"))
			ts[i].current, ts[i].exists, ts[i].nowDir = nil, false, true
			us = append(us, vpFile{ts[i].path + "/x", []byte("X")})
		case 1:
			// the first file's new bytes are free (they may equal any other file's bytes); the others get fixed new bytes
			nc := []byte{byte('a' + i)}
			if i == 0 {
				nc = zzvp.Bytes("te0", 1, "")
			}
			zzvp.WriteFile(w+"/"+ts[i].path, nc)
			ts[i].current = nc
		case 2:
			zzvp.RemoveAll(w + "/" + ts[i].path)
			ts[i].current, ts[i].exists = nil, false
		}
	}
	if untracked {
		p := vpPath("u0", depth, zzvp.Param("ucomplen", 1))
		for _, o := range ts {
			zzvp.Assume(o.path != p && !vpHasDirPrefix(p, o.path) && !vpHasDirPrefix(o.path, p))
		}
		c := []byte("U")
		zzvp.WriteFile(w+"/"+p, c)
		us = append(us, vpFile{p, c})
	}
	return ts, us
}

// vpArg: a free path argument of the same shapes (may equal a file, a directory, a deleted path, or nothing)
func vpArg(name string, depth, maxc int) string { return vpPath(name, depth, maxc) }

func vpUnder(path, arg string) bool { return path == arg || vpHasDirPrefix(path, arg) }

// VP_C04_Add: after `add <arg>` exactly the named paths changed in the staging area, their blobs are stored, no working file is touched.
func VP_C04_Add() {
	ts, us := vpBuildState(1+zzvp.Choose(zzvp.Param("tracked", 2)), zzvp.Param("depth", 2), zzvp.Param("complen", 1), true)
	w, g := zzvp.Root(), vpG()
	arg := vpArg("arg", zzvp.Param("depth", 2), zzvp.Param("complen", 1))
	before, ok := vpReadIndex()
	zzvp.Assume(ok)
	s0 := zzvp.Snapshot(w)
	r := zzvp.Run("add", arg)
	zzvp.Assert(r.Exit == 0 || r.Exit == 1, "add ends with status 0 or 1")
	after, ok := vpReadIndex()
	zzvp.Assert(ok, "the staging area decodes after add")
	zzvp.Assert(zzvp.SnapEq(s0, zzvp.Snapshot(w), g+"/index", g+"/objects"), "add touches no working file and nothing but the staging area and the object store")
	// specification
	named := false
	want := append([]vpPair{}, before...)
	set := func(p string, id string) {
		for i := range want {
			if want[i].path == p {
				want[i].hash = id
				return
			}
		}
		want = append(want, vpPair{p, id})
	}
	del := func(p string) {
		var w2 []vpPair
		for _, e := range want {
			if e.path != p {
				w2 = append(w2, e)
			}
		}
		want = w2
	}
	for _, t := range ts {
		if vpUnder(t.path, arg) {
			if t.exists {
				named = true
				set(t.path, string(vpBlobID(t.current)))
			} else if t.path == arg {
				named = true
				del(t.path)
			}
		}
	}
	for _, u := range us {
		if vpUnder(u.path, arg) {
			named = true
			set(u.path, string(vpBlobID(u.content)))
		}
	}
	if r.Exit == 0 {
		same := len(after) == len(want)
		for _, e := range want {
			id, found := vpFindPair(after, e.path)
			if !found || id != e.hash {
				same = false
			}
		}
		zzvp.Assert(same, "after add: named existing files staged with the id of their current bytes, a named deleted path unstaged, every other entry unchanged")
		sorted := true
		for i := 1; i < len(after); i++ {
			if !(after[i-1].path < after[i].path) {
				sorted = false
			}
		}
		zzvp.Assert(sorted, "the staging area stays strictly ascending")
		zzvp.Assert(vpFsck() == "", "every staged path refers to a stored blob after add")
	} else {
		zzvp.Assert(vpSamePairList(before, after), "a refused add changes nothing in the staging area")
		zzvp.Assert(!named, "a tracked or existing path is always addressable by add")
	}
	zzvp.Done()
}

// VP_C04_AddMulti: argument lists mixing files, a directory, deleted-but-tracked paths and repeated arguments.
func VP_C04_AddMulti() {
	vpInitRepo()
	w := zzvp.Root()
	// tracked: old (deleted later), keep (edited later), dir/in (edited later); untracked: new
	for _, f := range []string{"old", "keep", "dir/in"} {
		zzvp.WriteFile(w+"/"+f, []byte("1"))
	}
	vpOK(zzvp.Run("add", "old", "keep", "dir"))
	zzvp.RemoveAll(w + "/old")
	zzvp.WriteFile(w+"/keep", []byte("2"))
	zzvp.WriteFile(w+"/dir/in", []byte("3"))
	zzvp.WriteFile(w+"/new", []byte("4"))
	pool := []string{"old", "keep", "new", "dir", "dir/in", "nosuch"}
	n := 1 + zzvp.Choose(zzvp.Param("args", 3))
	var args []string
	for i := 0; i < n; i++ {
		args = append(args, pool[zzvp.Choose(len(pool))])
	}
	before, _ := vpReadIndex()
	r := zzvp.Run(append([]string{"add"}, args...)...)
	zzvp.Assert(r.Exit == 0 || r.Exit == 1, "add ends with status 0 or 1")
	after, ok := vpReadIndex()
	zzvp.Assert(ok, "the staging area decodes after add")
	if r.Exit == 0 {
		content := map[string]string{"keep": "2", "new": "4", "dir/in": "3"}
		named := map[string]bool{}
		for _, a := range args {
			if a == "dir" {
				named["dir/in"] = true
			} else {
				named[a] = true
			}
		}
		good := true
		for _, p := range []string{"keep", "new", "dir/in"} {
			id, found := vpFindPair(after, p)
			if named[p] {
				if !found || id != string(vpBlobID([]byte(content[p]))) {
					good = false
				}
			} else {
				oid, was := vpFindPair(before, p)
				if found != was || id != oid {
					good = false
				}
			}
		}
		_, oldStaged := vpFindPair(after, "old")
		if named["old"] == oldStaged {
			good = false
		}
		zzvp.Assert(good && !named["nosuch"], "a successful add staged every named file with its current bytes, unstaged the named deleted path and left the rest alone")
		zzvp.Assert(vpFsck() == "", "every staged path refers to a stored blob")
	}
	zzvp.Done()
}

// VP_C04_Rm: after `rm <arg>` exactly the named tracked files are gone from staging area and work tree; nothing else is touched.
func VP_C04_Rm() {
	ts, us := vpBuildState(1+zzvp.Choose(zzvp.Param("tracked", 2)), zzvp.Param("depth", 2), zzvp.Param("complen", 1), true)
	w, g := zzvp.Root(), vpG()
	arg := vpArg("arg", zzvp.Param("depth", 2), zzvp.Param("complen", 1))
	before, ok := vpReadIndex()
	zzvp.Assume(ok)
	r := zzvp.Run("rm", arg)
	zzvp.Assert(r.Exit == 0 || r.Exit == 1, "rm ends with status 0 or 1")
	after, ok := vpReadIndex()
	zzvp.Assert(ok, "the staging area decodes after rm")
	named := false
	var want []vpPair
	for _, e := range before {
		if vpUnder(e.path, arg) {
			named = true
		} else {
			want = append(want, e)
		}
	}
	// a named tracked path that is now a non-empty directory cannot be removed without touching untracked files: rm may refuse
	blocked := false
	for _, t := range ts {
		if t.nowDir && vpUnder(t.path, arg) {
			blocked = true
		}
	}
	for _, u := range us {
		c, ok := zzvp.ReadFile(w + "/" + u.path)
		zzvp.Assert(ok && string(c) == string(u.content), "rm never removes or modifies an untracked file")
	}
	for _, t := range ts {
		if !vpUnder(t.path, arg) && t.exists {
			c, ok := zzvp.ReadFile(w + "/" + t.path)
			zzvp.Assert(ok && string(c) == string(t.current), "rm leaves every working file that was not named untouched")
		}
	}
	if r.Exit == 0 {
		zzvp.Assert(named, "rm succeeds only for a tracked path")
		zzvp.Assert(vpSamePairList(after, want), "after rm exactly the named tracked paths are gone from the staging area")
		for _, t := range ts {
			if vpUnder(t.path, arg) {
				zzvp.Assert(!zzvp.Exists(w+"/"+t.path), "after rm the named tracked files are gone from the work tree")
			}
		}
	} else {
		zzvp.Assert(!named || blocked, "a tracked path (or tracked directory) is always addressable by rm")
	}
	_ = g
	zzvp.Done()
}

// VP_C04_ReAdd: re-adding unchanged files changes nothing at all.
func VP_C04_ReAdd() {
	vpInitRepo()
	w := zzvp.Root()
	files := vpWorkFiles(1+zzvp.Choose(zzvp.Param("files", 2)), zzvp.Param("depth", 2), zzvp.Param("complen", 2), 1)
	for _, f := range files {
		vpOK(zzvp.Run("add", f.path))
	}
	s0 := zzvp.Snapshot(w)
	var r zzvp.Result
	if zzvp.Choose(2) == 0 {
		r = zzvp.Run("add", files[0].path)
	} else {
		r = zzvp.Run("add", ".")
	}
	zzvp.Assert(r.Exit == 0, "re-adding succeeds")
	zzvp.Assert(zzvp.SnapEq(s0, zzvp.Snapshot(w)), "re-adding unchanged files changes nothing")
	zzvp.Done()
}

// VP_C04_KindChange: a tracked file whose parent directory has been replaced by an (untracked) file no longer exists:
// `add <path>` unstages it, `rm <path>` and `rm <dir>` drop it from the staging area; the untracked file standing in the
// directory's place and every other entry stay as they are.
func VP_C04_KindChange() {
	vpInitRepo()
	w := zzvp.Root()
	maxc := zzvp.Param("complen", 2)
	top := vpPath("k", 1, maxc)
	leaf := vpPath("l", 1, maxc)
	other := vpPath("o", zzvp.Param("depth", 2), maxc)
	zzvp.Assume(other != top && !vpHasDirPrefix(other, top) && !vpHasDirPrefix(top, other))
	zzvp.WriteFile(w+"/"+other, []byte("O"))
	vpOK(zzvp.Run("add", other))
	tracked := top + "/" + leaf
	zzvp.WriteFile(w+"/"+tracked, []byte("1"))
	vpOK(zzvp.Run("add", tracked))
	if zzvp.Choose(2) == 1 {
		vpOK(zzvp.Run("commit", "-m", "base"))
	}
	zzvp.RemoveAll(w + "/" + top)
	zzvp.WriteFile(w+"/"+top, []byte("F"))
	before, _ := vpReadIndex()
	var r zzvp.Result
	switch zzvp.Choose(3) {
	case 0:
		r = zzvp.Run("add", tracked)
	case 1:
		r = zzvp.Run("rm", tracked)
	default:
		r = zzvp.Run("rm", top)
	}
	zzvp.Assert(r.Exit == 0, "a named path that is tracked but no longer exists is unstaged by add and removed by rm")
	after, ok := vpReadIndex()
	var want []vpPair
	for _, e := range before {
		if e.path != tracked {
			want = append(want, e)
		}
	}
	zzvp.Assert(ok && vpSamePairList(after, want), "exactly the named tracked path is gone from the staging area")
	f, fok := zzvp.ReadFile(w + "/" + top)
	o, ook := zzvp.ReadFile(w + "/" + other)
	zzvp.Assert(fok && string(f) == "F" && ook && string(o) == "O", "no untracked file and no other working file is removed or modified")
	zzvp.Done()
}

// VP_C04_Three: with three or four staged entries, removing one that is not the last (rm, add of a deleted tracked file,
// restore --staged of a new file) leaves exactly the others, still in ascending order and still addressable one by one.
func VP_C04_Three() {
	vpInitRepo()
	w := zzvp.Root()
	var names []string
	for i := 0; i < 3; i++ {
		n := vpComp("n"+string(rune('0'+i)), 1)
		for _, o := range names {
			zzvp.Assume(o != n)
		}
		zzvp.WriteFile(w+"/"+n, []byte{byte('1' + i)})
		names = append(names, n)
	}
	vpOK(zzvp.Run("add", names[0], names[1], names[2]))
	victim := names[zzvp.Choose(3)]
	var r zzvp.Result
	switch zzvp.Choose(3) {
	case 0:
		r = zzvp.Run("rm", victim)
	case 1:
		zzvp.RemoveAll(w + "/" + victim)
		r = zzvp.Run("add", victim)
	default:
		// commit the three, stage a fourth, take it back
		vpOK(zzvp.Run("commit", "-m", "c"))
		victim = vpComp("n3", 1)
		for _, o := range names {
			zzvp.Assume(o != victim)
		}
		zzvp.WriteFile(w+"/"+victim, []byte("4"))
		vpOK(zzvp.Run("add", victim))
		r = zzvp.Run("restore", "--staged", victim)
	}
	zzvp.Assert(r.Exit == 0, "a tracked path can be removed from the staging area")
	idx, ok := vpReadIndex()
	sorted := ok
	for i := 1; i < len(idx); i++ {
		if !(idx[i-1].path < idx[i].path) {
			sorted = false
		}
	}
	var want []string
	for _, n := range names {
		if n != victim {
			want = append(want, n)
		}
	}
	zzvp.Assert(sorted && len(idx) == len(want), "exactly the named tracked path is gone from the staging area, the rest stays in ascending order")
	// every remaining path is still found when named
	for _, n := range want {
		zzvp.WriteFile(w+"/"+n, []byte("dirty"))
		rr := zzvp.Run("restore", n)
		c, _ := zzvp.ReadFile(w + "/" + n)
		zzvp.Assert(rr.Exit == 0 && string(c) != "dirty", "every tracked path is found when named to add, rm or restore")
	}
	zzvp.Done()
}
