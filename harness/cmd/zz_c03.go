package cmd

import (
	"github.com/JunNishimura/Goit/internal/zzvp"
)

type vpObjFile struct {
	path string
	data []byte
}

func vpAllObjects() []vpObjFile {
	g := vpG()
	var out []vpObjFile
	for _, d := range zzvp.List(g + "/objects") {
		for _, f := range zzvp.List(g + "/objects/" + d) {
			p := g + "/objects/" + d + "/" + f
			raw, _ := zzvp.ReadZ(p)
			out = append(out, vpObjFile{p, raw})
		}
	}
	return out
}

func vpObjectsKept(before []vpObjFile) bool {
	ok := true
	for _, o := range before {
		raw, found := zzvp.ReadZ(o.path)
		if !found || string(raw) != string(o.data) {
			ok = false
		}
	}
	return ok
}

const vpRefAlpha = "a-zA-Z0-9_.:% -" // incl. blank (also trailing), colon and percent: all legal in branch names

// vpPrefix builds a small reachable repository state; returns ids of (a commit, a tree, a blob) and the tracked path.
func vpPrefix(kind int) (commit, tree, blob []byte, path string) {
	vpInitRepo()
	w := zzvp.Root()
	path = "f.txt"
	zzvp.WriteFile(w+"/"+path, []byte("one\n"))
	vpOK(zzvp.Run("add", path))
	if kind == 0 {
		return nil, nil, vpBlobID([]byte("one\n")), path // fresh: nothing committed
	}
	vpOK(zzvp.Run("commit", "-m", "c1"))
	commit, _, _ = vpBranch("main")
	_, data, _ := vpReadObject(vpG(), commit)
	tree = vpParseCommit(data).tree
	blob = vpBlobID([]byte("one\n"))
	if kind >= 2 {
		vpOK(zzvp.Run("branch", "dev"))
		zzvp.WriteFile(w+"/"+path, []byte("two\n"))
		vpOK(zzvp.Run("add", path))
		vpOK(zzvp.Run("commit", "-m", "c2"))
	}
	if kind >= 3 {
		vpOK(zzvp.Run("branch", "-r", "trunk")) // leaves zero-id entries in the journal
	}
	return
}

// a legal branch name that is shaped like a line break followed by a complete journal record naming a commit that does not exist
const vpForgedName = "topic\n1234567890123456789012345678901234567890 abcdefabcdefabcdefabcdefabcdefabcdefabcd A U Thor <a@b.cd> 1700000000 +0000\tcommit: x"

func vpHostileName(sym string) string {
	switch zzvp.Choose(10) {
	case 9:
		return vpForgedName
	case 0:
		return "../../HEAD"
	case 1:
		return "a/b"
	case 2:
		return ".."
	case 3:
		return "."
	case 4:
		return "../index"
	case 5:
		return "main"
	case 6:
		return "dev"
	case 7:
		return "../../config"
	}
	return zzvp.Str(sym, 1+zzvp.Choose(2), vpRefAlpha)
}

func vpHostileID(tag string, commit, tree, blob []byte) string {
	kinds := 6
	if zzvp.Param("symids", 1) == 0 {
		kinds = 3 // only ids of existing objects (commit / tree / blob); free hex strings are covered by the one-step harness
	}
	switch zzvp.Choose(kinds) {
	case 0:
		if commit != nil {
			return vpHex(commit)
		}
		return "0000000000000000000000000000000000000000"
	case 1:
		if tree != nil {
			return vpHex(tree)
		}
		return vpHex(blob)
	case 2:
		return vpHex(blob)
	case 3:
		return zzvp.Str(tag+"id40", 40, "0-9a-f")
	case 4:
		return zzvp.Str(tag+"id39", 39, "0-9a-f")
	}
	return zzvp.Str(tag+"id41", 41, "0-9a-fg")
}

// vpHostileCmd runs one command with hostile arguments chosen by the solver / the explorer.
func vpHostileCmd(tag string, commit, tree, blob []byte, path string) zzvp.Result {
	var r zzvp.Result
	t := tag
	switch zzvp.Choose(12) {
	case 0:
		nm := []string{"main", "dev", "trunk", "nosuch"}[zzvp.Choose(4)]
		r = zzvp.Run("update-ref", "refs/heads/"+nm, vpHostileID(t, commit, tree, blob))
	case 1:
		r = zzvp.Run("branch", vpHostileName(t + "bn"))
	case 2:
		r = zzvp.Run("branch", "-r", vpHostileName(t + "rn"))
	case 3:
		r = zzvp.Run("branch", "-d", vpHostileName(t + "dn"))
	case 4:
		r = zzvp.Run("switch", vpHostileName(t + "sn"))
	case 5:
		r = zzvp.Run("switch", "-c", vpHostileName(t + "cn"))
	case 6:
		mode := []string{"--soft", "--mixed", "--hard"}[zzvp.Choose(3)]
		r = zzvp.Run("reset", mode, "HEAD@{"+zzvp.Str(t+"pos", 1, "0-9")+"}")
	case 7:
		r = zzvp.Run("restore", "--staged", []string{path, "nosuch", "."}[zzvp.Choose(3)])
	case 8:
		r = zzvp.Run("restore", []string{path, "nosuch"}[zzvp.Choose(2)])
	case 9:
		r = zzvp.Run("rm", []string{path, "nosuch"}[zzvp.Choose(2)])
	case 10:
		zzvp.WriteFile(zzvp.Root()+"/"+path, zzvp.Bytes(t+"newc", 1, ""))
		vpOK(zzvp.Run("add", path))
		r = zzvp.Run("commit", "-m", "next")
	default:
		r = zzvp.Run("config", "user.name", "Other")
	}
	return r
}

// VP_C03_Step: after any one command (hostile arguments included), whether it succeeded or was refused, the repository is connected
// and no stored object was deleted or changed.
func VP_C03_Step() {
	kind := zzvp.Choose(zzvp.Param("prefixes", 4))
	commit, tree, blob, path := vpPrefix(kind)
	before := vpAllObjects()
	zzvp.Assume(vpFsck() == "")
	cur := vpHeadRef()
	_, curExisted, _ := vpBranch(cur)
	r := vpHostileCmd("", commit, tree, blob, path)
	zzvp.Assert(r.Exit == 0 || r.Exit == 1, "the command ends with status 0 or 1 (no crash)")
	zzvp.Assert(vpFsck() == "", "the repository is still connected: HEAD names a branch, branches hold existing commits, snapshots and staged blobs exist")
	zzvp.Assert(vpObjectsKept(before), "no command deletes a stored object or changes its content")
	if curExisted {
		_, nowExists, _ := vpBranch(vpHeadRef())
		zzvp.Assert(nowExists, "HEAD keeps naming a branch that holds a commit")
	}
	zzvp.Done()
}

// VP_C03_Two: the same invariant after any TWO consecutive commands (thorough tier): the second command starts from whatever
// the first one left behind, refused or not.
func VP_C03_Two() {
	lo := zzvp.Param("prefixmin", 0)
	kind := lo + zzvp.Choose(zzvp.Param("prefixes", 4)-lo)
	commit, tree, blob, path := vpPrefix(kind)
	before := vpAllObjects()
	zzvp.Assume(vpFsck() == "")
	for step := 0; step < 2; step++ {
		cur := vpHeadRef()
		_, curExisted, _ := vpBranch(cur)
		r := vpHostileCmd("s"+string(rune('0'+step)), commit, tree, blob, path)
		zzvp.Assert(r.Exit == 0 || r.Exit == 1, "each command of the sequence ends with status 0 or 1")
		zzvp.Assert(vpFsck() == "", "the repository is connected after each command of the sequence")
		zzvp.Assert(vpObjectsKept(before), "no command of the sequence deletes a stored object or changes its content")
		if curExisted {
			_, nowExists, _ := vpBranch(vpHeadRef())
			zzvp.Assert(nowExists, "HEAD keeps naming a branch that holds a commit")
		}
	}
	zzvp.Done()
}

// VP_C03_SharedFanout: objects whose ids share their first byte live in the same fan-out directory. Two file contents with
// that relation are found by search (ids are SHA-1 values, so the pair is fixed data, not a solver variable); both are
// staged and committed under free names: every staged path and every snapshot entry refers to a stored object.
func VP_C03_SharedFanout() {
	vpInitRepo()
	w := zzvp.Root()
	// the first two single-byte contents whose blob ids start with the same byte, starting the search at a chosen offset
	start := 32 * zzvp.Choose(4)
	seen := map[byte]int{}
	a, b := -1, -1
	for i := 0; i < 256 && a < 0; i++ {
		c := (start + i) % 256
		first := vpBlobID([]byte{byte(c)})[0]
		if o, ok := seen[first]; ok {
			a, b = o, c
		} else {
			seen[first] = c
		}
	}
	zzvp.Assume(a >= 0)
	f1 := vpPath("sa", 2, 1)
	f2 := vpPath("sb", 2, 1)
	zzvp.Assume(f1 != f2 && !vpHasDirPrefix(f1, f2) && !vpHasDirPrefix(f2, f1))
	zzvp.WriteFile(w+"/"+f1, []byte{byte(a)})
	zzvp.WriteFile(w+"/"+f2, []byte{byte(b)})
	if zzvp.Choose(2) == 0 {
		vpOK(zzvp.Run("add", f1))
		vpOK(zzvp.Run("add", f2))
	} else {
		vpOK(zzvp.Run("add", "."))
	}
	zzvp.Assert(vpFsck() == "", "every staged blob exists although two of them share a fan-out directory")
	vpOK(zzvp.Run("commit", "-m", "two"))
	zzvp.Assert(vpFsck() == "", "after the commit every branch, snapshot and blob is there")
	_, d1, ok1 := vpReadObject(vpG(), vpBlobID([]byte{byte(a)}))
	_, d2, ok2 := vpReadObject(vpG(), vpBlobID([]byte{byte(b)}))
	zzvp.Assert(ok1 && ok2 && len(d1) == 1 && len(d2) == 1 && d1[0] == byte(a) && d2[0] == byte(b), "both blobs read back with their own bytes")
	zzvp.Done()
}
