package cmd

import (
	"github.com/JunNishimura/Goit/internal/zzvp"
)

// VP_C17_Add: no form of add stages a path inside .goit or an ignored path; with no .goitignore nothing else is skipped.
func VP_C17_Add() {
	vpInitRepo()
	w, g := zzvp.Root(), vpG()
	maxc := zzvp.Param("complen", 2)
	// files: top-level file, file in a directory, file with an extension
	dir := vpComp("dir", maxc)
	nested := zzvp.Choose(2) == 1
	top := ""
	if nested {
		// the directory lives one level down: top/dir/...
		top = vpComp("top", 1)
	}
	ext := zzvp.Str("ext", 1+zzvp.Choose(2), "a-z")

	plain := vpComp("pl", maxc)
	dirPath := dir
	if nested {
		dirPath = top + "/" + dir
	}
	fileInDir := dirPath + "/" + vpComp("in", maxc)
	withExt := vpComp("we", maxc) + "." + ext
	zzvp.Assume(plain != dir && withExt != dir && plain != withExt && plain != top && withExt != top)
	// the ignore line names the directory by its full path or (when nested) also by its last component only
	ignLine := dirPath + "/"
	if nested && zzvp.Choose(2) == 1 {
		ignLine = dir + "/"
	}
	// a second top-level file that is never added by name and that no rule excludes: a neighbour of the ignored files
	extra := "~nb" // (fixed name when the bound switches the free neighbour off)
	if zzvp.Param("neighbour", 1) == 1 {
		extra = vpComp("xt", 1)
	}
	zzvp.Assume(extra != plain && extra != dir && extra != top && extra != withExt && !(len(extra) > len(ext) && extra[len(extra)-len(ext)-1:] == "."+ext))
	zzvp.WriteFile(w+"/"+extra, []byte("x"))
	zzvp.WriteFile(w+"/"+plain, []byte("p"))
	zzvp.WriteFile(w+"/"+fileInDir, []byte("d"))
	zzvp.WriteFile(w+"/"+withExt, []byte("e"))
	ignoreDir, ignoreExt := false, false
	// entries are separated by a line break, or by a blank line (which is no entry and excludes nothing)
	sep := "\n"
	kind := zzvp.Choose(4)
	if kind != 0 && zzvp.Choose(2) == 1 {
		sep = "\n\n"
	}
	switch kind {
	case 1:
		zzvp.WriteFile(w+"/.goitignore", []byte(ignLine+sep))
		ignoreDir = true
	case 2:
		zzvp.WriteFile(w+"/.goitignore", []byte("*."+ext+sep))
		ignoreExt = true
	case 3:
		zzvp.WriteFile(w+"/.goitignore", []byte(ignLine+sep+"*."+ext+"\n"))
		ignoreDir, ignoreExt = true, true
	}
	hasIgnoreFile := ignoreDir || ignoreExt
	// grow the metadata directory first (index and objects present), then add again in several forms
	vpOK(zzvp.Run("add", plain))
	var r zzvp.Result
	switch zzvp.Choose(5) {
	case 0:
		r = zzvp.Run("add", ".")
	case 4:
		if nested {
			r = zzvp.Run("add", top)
		} else {
			r = zzvp.Run("add", dir)
		}
	case 1:
		r = zzvp.Run("add", dirPath)
	case 2:
		r = zzvp.Run("add", fileInDir, withExt)
	default:
		r = zzvp.Run("add", ".goit")
	}
	zzvp.Assert(r.Exit == 0 || r.Exit == 1, "add ends with status 0 or 1")
	idx, ok := vpReadIndex()
	zzvp.Assert(ok, "the staging area decodes")
	clean := true
	for _, e := range idx {
		p := e.path
		if len(p) >= 6 && p[:6] == ".goit/" {
			clean = false
		}
		if ignoreDir && vpHasDirPrefix(p, dirPath) {
			clean = false
		}
		if ignoreExt && len(p) > len(ext)+1 && p[len(p)-len(ext)-1:] == "."+ext {
			clean = false
		}
	}
	zzvp.Assert(clean, "no path inside .goit and no path excluded by .goitignore is ever staged")
	// status never lists such paths; and hides nothing else
	sr := zzvp.Run("status")
	zzvp.Assert(sr.Exit == 0, "status succeeds")
	st := vpParseStatus(sr.Out)
	listed := func(p string) bool {
		for _, u := range st.untracked {
			if u == p {
				return true
			}
		}
		for _, s := range st.staged {
			if len(s) > 13 && s[13:] == p {
				return true
			}
		}
		return false
	}
	for _, u := range st.untracked {
		zzvp.Assert(!(len(u) >= 6 && u[:6] == ".goit/"), "status never lists Goit's own files")
	}
	if ignoreDir {
		zzvp.Assert(!listed(fileInDir), "a 'name/' entry hides everything beneath that directory")
	} else {
		zzvp.Assert(listed(fileInDir) || !clean, "a file in a directory that is not ignored is visible")
	}
	if ignoreExt {
		zzvp.Assert(!listed(withExt), "a '*.ext' entry hides files with that extension")
	} else {
		zzvp.Assert(listed(withExt), "a file whose extension is not ignored is visible")
	}
	zzvp.Assert(listed(plain), "a path that no rule excludes is never hidden")
	zzvp.Assert(listed(extra), "a path that no rule excludes is never hidden, whatever ignored files stand next to it")
	_ = hasIgnoreFile
	_ = g
	zzvp.Done()
}

// VP_C17_Semantics: with no .goitignore no path outside .goit is hidden, whatever its name looks like.
func VP_C17_Semantics() {
	vpInitRepo()
	w := zzvp.Root()
	// names that merely contain ".goit" or look like patterns
	name := zzvp.Str("pre", zzvp.Choose(2), "a-z.") + ".goit" + zzvp.Str("suf", zzvp.Choose(2), "a-z.")
	zzvp.Assume(name != ".goit")
	p := name + "/" + vpComp("f", 1)
	zzvp.WriteFile(w+"/"+p, []byte("x"))
	st := vpParseStatus(zzvp.Run("status").Out)
	found := false
	for _, u := range st.untracked {
		if u == p {
			found = true
		}
	}
	zzvp.Assert(found, "with no .goitignore, a path outside the metadata directory is never hidden")
	r := zzvp.Run("add", ".")
	zzvp.Assert(r.Exit == 0, "add . succeeds")
	idx, _ := vpReadIndex()
	_, staged := vpFindPair(idx, p)
	zzvp.Assert(staged, "with no .goitignore, add . skips no path outside the metadata directory")
	zzvp.Done()
}

// VP_C17_Forms: files of the metadata directory named in roundabout ways (absolute path, detour through the parent
// directory, "./" prefix, the directory itself with a trailing slash) are never staged, from a repository with history.
func VP_C17_Forms() {
	vpInitRepo()
	w := zzvp.Root()
	name := vpComp("fn", zzvp.Param("complen", 2))
	zzvp.WriteFile(w+"/"+name, []byte("1"))
	vpOK(zzvp.Run("add", name))
	vpOK(zzvp.Run("commit", "-m", "c"))
	base := w
	for i := len(w) - 1; i >= 0; i-- {
		if w[i] == '/' {
			base = w[i+1:]
			break
		}
	}
	inner := []string{"HEAD", "config", "index", "refs/heads/main", "logs/HEAD"}[zzvp.Choose(5)]
	var r zzvp.Result
	switch zzvp.Choose(5) {
	case 0:
		r = zzvp.Run("add", w+"/.goit/"+inner)
	case 1:
		r = zzvp.Run("add", "../"+base+"/.goit/"+inner)
	case 2:
		r = zzvp.Run("add", "./.goit/"+inner)
	case 3:
		r = zzvp.Run("add", ".goit/", name)
	default:
		r = zzvp.Run("add", name+"/../.goit/"+inner)
	}
	zzvp.Assert(r.Exit == 0 || r.Exit == 1, "add ends with status 0 or 1")
	idx, ok := vpReadIndex()
	clean := ok
	for _, e := range idx {
		if len(e.path) >= 5 && e.path[:5] == ".goit" {
			clean = false
		}
	}
	zzvp.Assert(clean, "no path inside .goit and no path excluded by .goitignore is ever staged")
	st := vpParseStatus(zzvp.Run("status").Out)
	for _, u := range append(append([]string{}, st.untracked...), st.staged...) {
		zzvp.Assert(!vpContains(u, ".goit/"), "status never lists Goit's own files")
	}
	zzvp.Done()
}

// VP_C17_DottedExt: an extension entry of two parts ('*.tar.gz'-like, letters free): matching files, at top level and in a
// directory, are neither staged nor listed; files that end in only one of the parts are.
func VP_C17_DottedExt() {
	vpInitRepo()
	w := zzvp.Root()
	e1, e2 := zzvp.Str("ex1", 1, "a-z"), zzvp.Str("ex2", 1+zzvp.Choose(2), "a-z")
	ext := e1 + "." + e2
	ignored := []string{"a." + ext, "sub/b." + ext}
	visible := []string{"c." + e2, "d." + e1 + ".txt", "sub/e." + e1}
	zzvp.Assume(e1 != e2 && e2 != "txt")
	for _, p := range append(append([]string{}, ignored...), visible...) {
		zzvp.WriteFile(w+"/"+p, []byte("x"))
	}
	zzvp.WriteFile(w+"/.goitignore", []byte("*."+ext+"\n"))
	st := vpParseStatus(zzvp.Run("status").Out)
	for _, p := range ignored {
		zzvp.Assert(!vpHasStr(st.untracked, p), "a '*.ext' entry hides files with that extension")
	}
	for _, p := range visible {
		zzvp.Assert(vpHasStr(st.untracked, p), "a file whose extension is not ignored is visible")
	}
	var r zzvp.Result
	switch zzvp.Choose(3) {
	case 0:
		r = zzvp.Run("add", ".")
	case 1:
		r = zzvp.Run("add", "sub", "a."+ext)
	default:
		r = zzvp.Run("add", "sub/b."+ext)
	}
	zzvp.Assert(r.Exit == 0 || r.Exit == 1, "add ends with status 0 or 1")
	idx, _ := vpReadIndex()
	for _, p := range ignored {
		_, found := vpFindPair(idx, p)
		zzvp.Assert(!found, "no path inside .goit and no path excluded by .goitignore is ever staged")
	}
	zzvp.Done()
}

func vpHasStr(l []string, s string) bool {
	for _, x := range l {
		if x == s {
			return true
		}
	}
	return false
}

// VP_C17_LateIgnore: a file that was staged before a .goitignore entry came to cover it: no later form of add stages the
// excluded path again (its entry keeps the old id), whatever is done to the file in the meantime.
func VP_C17_LateIgnore() {
	vpInitRepo()
	w := zzvp.Root()
	ext := zzvp.Str("ext", 1, "a-z")
	inDir := zzvp.Choose(2) == 1
	path := vpComp("lf", 1) + "." + ext
	line := "*." + ext
	if inDir {
		d := vpComp("ld", 1)
		path = d + "/" + vpComp("lf", 1)
		line = d + "/"
	}
	zzvp.WriteFile(w+"/"+path, []byte("1"))
	zzvp.WriteFile(w+"/keep", []byte("k"))
	vpOK(zzvp.Run("add", path, "keep"))
	if zzvp.Choose(2) == 1 {
		vpOK(zzvp.Run("commit", "-m", "c"))
	}
	before, _ := vpReadIndex()
	zzvp.WriteFile(w+"/.goitignore", []byte(line+"\n"))
	zzvp.WriteFile(w+"/"+path, []byte("2"))
	zzvp.WriteFile(w+"/keep", []byte("K"))
	var r zzvp.Result
	switch zzvp.Choose(3) {
	case 0:
		r = zzvp.Run("add", ".")
	case 1:
		r = zzvp.Run("add", path, "keep")
	default:
		if inDir {
			r = zzvp.Run("add", path[:len(path)-2], "keep")
		} else {
			r = zzvp.Run("add", ".", "keep")
		}
	}
	zzvp.Assert(r.Exit == 0 || r.Exit == 1, "add ends with status 0 or 1")
	after, _ := vpReadIndex()
	b, _ := vpFindPair(before, path)
	a, found := vpFindPair(after, path)
	zzvp.Assert(!found || a == b, "no path inside .goit and no path excluded by .goitignore is ever staged")
	zzvp.Done()
}
