package cmd

import (
	"github.com/JunNishimura/Goit/internal/sha"
	"github.com/JunNishimura/Goit/internal/store"
	"github.com/JunNishimura/Goit/internal/zzvp"
)

const vpFirst = "a-z0-9 (+_%"
const vpRest = "a-z0-9 (+_%.-"

func vpComp(name string, maxc int) string {
	n := 1 + zzvp.Choose(maxc)
	c := zzvp.Str(name+"0", 1, vpFirst)
	if n > 1 {
		c += zzvp.Str(name+"1", n-1, vpRest)
	}
	return c
}

func vpPath(name string, depth, maxc int) string {
	d := 1 + zzvp.Choose(depth)
	p := ""
	for i := 0; i < d; i++ {
		if i > 0 {
			p += "/"
		}
		m := maxc
		if dm := zzvp.Param("deepcomplen", maxc); i > 0 && dm < m {
			m = dm // bound for the components below the first one (keeps the shape count down where only siblings at the top matter)
		}
		p += vpComp(name+"_"+string(rune('a'+i)), m)
	}
	return p
}

func vpHasDirPrefix(s, d string) bool {
	return len(s) > len(d) && s[:len(d)] == d && s[len(d)] == '/'
}

type vpPair struct {
	path string
	hash string
}

// vpEntries: an arbitrary legal staging area: strictly ascending, no path is a directory prefix of another.
func vpEntries(n, depth, maxc int) []*store.Entry {
	var es []*store.Entry
	for i := 0; i < n; i++ {
		p := vpPath("p"+string(rune('0'+i)), depth, maxc)
		var h []byte
		if zzvp.Param("symhash", 1) == 1 {
			h = zzvp.Bytes("h"+string(rune('0'+i)), 20, "")
		} else {
			// ids do not matter for this harness: fixed, pairwise distinct
			h = []byte{byte(0x10 + i), 0x20, 0x0a, 0, 1, 2, 3, 4, 5, 6, 7, 8, 9, 10, 11, 12, 13, 14, 15, byte(0xf0 + i)}
		}
		if i > 0 {
			zzvp.Assume(string(es[i-1].Path) < p)
		}
		for j := 0; j < i; j++ {
			q := string(es[j].Path)
			zzvp.Assume(!vpHasDirPrefix(p, q) && !vpHasDirPrefix(q, p))
		}
		es = append(es, store.NewEntry(sha.SHA1(h), []byte(p)))
	}
	return es
}

func vpGoit() string {
	g := zzvp.Root() + "/.goit"
	zzvp.MkdirAll(g + "/objects")
	zzvp.MkdirAll(g + "/refs/heads")
	return g
}

func vpObjPath(g string, h []byte) string {
	hx := sha.SHA1(h).String()
	return g + "/objects/" + hx[:2] + "/" + hx[2:]
}

// vpReadObject: independent reader of the object store: (kind, payload) of the object stored under id h.
func vpReadObject(g string, h []byte) (string, []byte, bool) {
	raw, ok := zzvp.ReadZ(vpObjPath(g, h))
	if !ok {
		return "", nil, false
	}
	sp := -1
	for i := 0; i < len(raw) && i < 8; i++ {
		if raw[i] == ' ' {
			sp = i
			break
		}
	}
	if sp < 0 {
		return "", nil, false
	}
	nul := -1
	for i := sp + 1; i < len(raw); i++ {
		if raw[i] == 0 {
			nul = i
			break
		}
	}
	if nul < 0 {
		return "", nil, false
	}
	size := 0
	for _, c := range raw[sp+1 : nul] {
		if c < '0' || c > '9' {
			return "", nil, false
		}
		size = size*10 + int(c-'0')
	}
	payload := raw[nul+1:]
	if size != len(payload) {
		return "", nil, false
	}
	return string(raw[:sp]), payload, true
}

// vpDecodeTree: independent decoder of Git's tree format (mode SP name NUL 20-byte-id)*, flattened recursively.
func vpDecodeTree(g string, h []byte, prefix string, depth int) ([]vpPair, bool) {
	kind, data, ok := vpReadObject(g, h)
	if !ok || kind != "tree" || depth > 6 {
		return nil, false
	}
	var out []vpPair
	i := 0
	for i < len(data) {
		sp := i
		for sp < len(data) && data[sp] != ' ' {
			sp++
		}
		if sp >= len(data) {
			return nil, false
		}
		mode := string(data[i:sp])
		nul := sp + 1
		for nul < len(data) && data[nul] != 0 {
			nul++
		}
		if nul+20 >= len(data)+0 && nul+20 != len(data)-0 && nul+21 > len(data) {
			return nil, false
		}
		if nul+21 > len(data) {
			return nil, false
		}
		name := string(data[sp+1 : nul])
		id := data[nul+1 : nul+21]
		i = nul + 21
		full := name
		if prefix != "" {
			full = prefix + "/" + name
		}
		switch mode {
		case "100644":
			out = append(out, vpPair{full, string(id)})
		case "040000", "40000":
			sub, ok := vpDecodeTree(g, id, full, depth+1)
			if !ok {
				return nil, false
			}
			out = append(out, sub...)
		default:
			return nil, false
		}
	}
	return out, true
}

func vpSamePairs(es []*store.Entry, ps []vpPair) bool {
	if len(es) != len(ps) {
		return false
	}
	ok := true
	for i := range es {
		if string(es[i].Path) != ps[i].path || string(es[i].Hash) != ps[i].hash {
			ok = false
		}
	}
	return ok
}
