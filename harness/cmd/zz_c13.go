package cmd

import (
	"github.com/JunNishimura/Goit/internal/zzvp"
)

// vpStatusSections parses `goit status` output into the three working-tree lists and the staged list.
type vpStatus struct {
	staged    []string // "kind path"
	modified  []string
	deleted   []string
	untracked []string
}

func vpTrimTab(l string) (string, bool) {
	if len(l) > 0 && l[0] == '\t' {
		return l[1:], true
	}
	return "", false
}

func vpParseStatus(out string) vpStatus {
	var st vpStatus
	section := ""
	for _, l := range vpSplitLines(out) {
		switch l {
		case "Changes to be committed:":
			section = "staged"
			continue
		case "Changes not staged for commit:":
			section = "unstaged"
			continue
		case "Untracked files:":
			section = "untracked"
			continue
		}
		body, ok := vpTrimTab(l)
		if !ok {
			continue
		}
		switch section {
		case "staged":
			st.staged = append(st.staged, body)
		case "unstaged":
			// "%-13s%s": kind padded to 13 columns
			if len(body) > 13 && body[:13] == "modified:    " {
				st.modified = append(st.modified, body[13:])
			} else if len(body) > 13 && body[:13] == "deleted:     " {
				st.deleted = append(st.deleted, body[13:])
			}
		case "untracked":
			st.untracked = append(st.untracked, body)
		}
	}
	return st
}

func vpSameSet(a, b []string) bool {
	if len(a) != len(b) {
		return false
	}
	ok := true
	for _, x := range a {
		n := 0
		for _, y := range b {
			if x == y {
				n++
			}
		}
		if n != 1 {
			ok = false
		}
	}
	return ok
}

// VP_C13_Status: modified / deleted / untracked are exactly what the bytes on disk say.
func VP_C13_Status() {
	vpInitRepo()
	w := zzvp.Root()
	depth, maxc := zzvp.Param("depth", 2), zzvp.Param("complen", 1)
	files := vpWorkFiles(1+zzvp.Choose(zzvp.Param("tracked", 2)), depth, maxc, 1)
	for _, f := range files {
		vpOK(zzvp.Run("add", f.path))
	}
	vpOK(zzvp.Run("commit", "-m", "base"))
	var wantMod, wantDel, wantUn []string
	removedDir := ""
	for i, f := range files {
		if removedDir != "" && vpHasDirPrefix(f.path, removedDir) {
			wantDel = append(wantDel, f.path)
			continue
		}
		switch zzvp.Choose(4) {
		case 3:
			// the whole (top-level) directory of the file is removed
			d := ""
			for k := 0; k < len(f.path); k++ {
				if f.path[k] == '/' {
					d = f.path[:k]
					break
				}
			}
			zzvp.Assume(d != "" && removedDir == "")
			for _, o := range files[:i] {
				zzvp.Assume(!vpHasDirPrefix(o.path, d))
			}
			zzvp.RemoveAll(w + "/" + d)
			removedDir = d
			wantDel = append(wantDel, f.path)
		case 1:
			// rewritten with symbolic bytes: the solver may choose identical bytes
			nc := zzvp.Bytes("rw"+string(rune('0'+i)), len(f.content), "")
			zzvp.WriteFile(w+"/"+f.path, nc)
			if string(nc) != string(f.content) {
				wantMod = append(wantMod, f.path)
			}
		case 2:
			zzvp.RemoveAll(w + "/" + f.path)
			wantDel = append(wantDel, f.path)
		}
	}
	if zzvp.Choose(2) == 1 {
		up := vpPath("un", zzvp.Param("udepth", depth), zzvp.Param("ucomplen", 1))
		for _, f := range files {
			zzvp.Assume(up != f.path && !vpHasDirPrefix(up, f.path) && !vpHasDirPrefix(f.path, up))
		}
		zzvp.WriteFile(w+"/"+up, []byte("U"))
		wantUn = append(wantUn, up)
	}
	r := zzvp.Run("status")
	zzvp.Assert(r.Exit == 0, "status succeeds")
	st := vpParseStatus(r.Out)
	zzvp.Assert(len(st.staged) == 0, "nothing is staged right after a commit")
	zzvp.Assert(vpSameSet(st.modified, wantMod), "modified = exactly the tracked files whose bytes differ from their staged blob (identical rewrite reports nothing)")
	zzvp.Assert(vpSameSet(st.deleted, wantDel), "deleted = exactly the tracked paths missing from the work tree")
	zzvp.Assert(vpSameSet(st.untracked, wantUn), "untracked = exactly the files on disk that are neither tracked nor ignored nor inside .goit")
	zzvp.Done()
}

// VP_C07_ResetStatus: a staging area re-installed from a commit (reset --mixed) equals that commit: nothing is staged, an empty
// commit is refused — for name sets with siblings that sort between '<dir>' and '<dir>/'.
func VP_C07_ResetStatus() {
	vpInitRepo()
	files := vpWorkFiles(2, zzvp.Param("depth", 2), zzvp.Param("complen", 2), 1)
	for _, f := range files {
		vpOK(zzvp.Run("add", f.path))
	}
	vpOK(zzvp.Run("commit", "-m", "base"))
	tip, _, _ := vpBranch("main")
	vpOK(zzvp.Run("reset", "--mixed", "HEAD@{0}"))
	st := vpParseStatus(zzvp.Run("status").Out)
	zzvp.Assert(len(st.staged) == 0, "after reset --mixed to HEAD nothing is listed as staged")
	r := zzvp.Run("commit", "-m", "again")
	t2, _, _ := vpBranch("main")
	zzvp.Assert(r.Exit == 1 && string(t2) == string(tip), "a commit right after reset --mixed to HEAD is refused and moves no branch")
	zzvp.Done()
}

// VP_C07_StatusStaged: the 'Changes to be committed' list and the refusal of an empty commit, at the CLI.
func VP_C07_StatusStaged() {
	vpInitRepo()
	w := zzvp.Root()
	depth, maxc := zzvp.Param("depth", 2), zzvp.Param("complen", 2)
	files := vpWorkFiles(1+zzvp.Choose(zzvp.Param("tracked", 2)), depth, maxc, 1)
	for _, f := range files {
		vpOK(zzvp.Run("add", f.path))
	}
	vpOK(zzvp.Run("commit", "-m", "base"))
	tip, _, _ := vpBranch("main")
	nobj := len(vpAllObjects())
	r := zzvp.Run("commit", "-m", "again")
	zzvp.Assert(r.Exit == 1, "a commit while the staging area equals the HEAD snapshot is refused")
	t2, _, _ := vpBranch("main")
	zzvp.Assert(string(t2) == string(tip) && len(vpAllObjects()) == nobj, "a refused commit creates no commit and moves no branch")
	var want []string
	for i, f := range files {
		switch zzvp.Choose(3) {
		case 1:
			nc := []byte{byte('a' + i)}
			if i == 0 {
				alpha := ""
				if zzvp.Param("smallcontent", 0) == 1 {
					alpha = "x\x00\n"
				}
				nc = zzvp.Bytes("ed0", 1, alpha) // free: may equal the committed bytes
			}
			zzvp.WriteFile(w+"/"+f.path, nc)
			vpOK(zzvp.Run("add", f.path))
			if string(nc) != string(f.content) {
				want = append(want, "modified:    "+f.path)
			}
		case 2:
			vpOK(zzvp.Run("rm", f.path))
			want = append(want, "deleted:     "+f.path)
		}
	}
	if zzvp.Choose(2) == 1 {
		np := vpPath("nw", depth, maxc)
		for _, f := range files {
			zzvp.Assume(np != f.path && !vpHasDirPrefix(np, f.path) && !vpHasDirPrefix(f.path, np))
		}
		zzvp.WriteFile(w+"/"+np, []byte("N"))
		vpOK(zzvp.Run("add", np))
		want = append(want, "new file:    "+np)
	}
	st := vpParseStatus(zzvp.Run("status").Out)
	zzvp.Assert(vpSameSet(st.staged, want), "'Changes to be committed' lists exactly the staged differences, each classified correctly")
	r = zzvp.Run("commit", "-m", "next")
	zzvp.Assert((r.Exit == 0) == (len(want) > 0), "commit succeeds iff something is staged")
	if r.Exit == 0 {
		st = vpParseStatus(zzvp.Run("status").Out)
		zzvp.Assert(len(st.staged) == 0, "immediately after a successful commit nothing is staged")
	}
	zzvp.Done()
}

// VP_C07_KindChange: a tracked file that became a directory (or a tracked directory that became a file) and is staged
// again: the staging area never tracks one name both as a file and as a directory, status reports the replacement as
// one deletion and one new file, the commit succeeds and leaves nothing staged.
func VP_C07_KindChange() {
	vpInitRepo()
	w := zzvp.Root()
	maxc := zzvp.Param("complen", 2)
	top := vpPath("k", 1, maxc)  // one component
	leaf := vpPath("l", 1, maxc) // one component
	other := vpPath("o", zzvp.Param("depth", 2), maxc)
	zzvp.Assume(other != top && !vpHasDirPrefix(other, top) && !vpHasDirPrefix(top, other))
	zzvp.WriteFile(w+"/"+other, []byte("O"))
	vpOK(zzvp.Run("add", other))
	var oldPath, newPath string
	fileToDir := zzvp.Choose(2) == 0
	if fileToDir {
		oldPath, newPath = top, top+"/"+leaf
	} else {
		oldPath, newPath = top+"/"+leaf, top
	}
	zzvp.WriteFile(w+"/"+oldPath, []byte("1"))
	vpOK(zzvp.Run("add", oldPath))
	vpOK(zzvp.Run("commit", "-m", "base"))
	zzvp.RemoveAll(w + "/" + top)
	zzvp.WriteFile(w+"/"+newPath, []byte("2"))
	var r zzvp.Result
	switch zzvp.Choose(3) {
	case 0:
		r = zzvp.Run("add", top)
	case 1:
		r = zzvp.Run("add", newPath)
	default:
		r = zzvp.Run("add", ".")
	}
	zzvp.Assert(r.Exit == 0, "staging the replacement succeeds")
	idx, ok := vpReadIndex()
	zzvp.Assert(ok, "the staging area decodes")
	conflict := false
	for _, a := range idx {
		for _, b := range idx {
			if vpHasDirPrefix(a.path, b.path) {
				conflict = true
			}
		}
	}
	zzvp.Assert(!conflict, "no name is tracked both as a file and as a directory")
	id, found := vpFindPair(idx, newPath)
	zzvp.Assert(found && id == string(vpBlobID([]byte("2"))), "the replacement is staged with its current bytes")
	st := vpParseStatus(zzvp.Run("status").Out)
	zzvp.Assert(vpSameSet(st.staged, []string{"deleted:     " + oldPath, "new file:    " + newPath}), "'Changes to be committed' lists the replaced path as deleted and the replacement as new, nothing else")
	c := zzvp.Run("commit", "-m", "swap")
	zzvp.Assert(c.Exit == 0, "a staged difference makes commit succeed")
	st = vpParseStatus(zzvp.Run("status").Out)
	zzvp.Assert(len(st.staged) == 0, "immediately after a successful commit nothing is staged")
	zzvp.Assert(vpFsck() == "", "the repository is connected afterwards")
	zzvp.Done()
}

// VP_C13_KindChange: a tracked file replaced on disk by a directory (or a tracked directory by a file): the tracked path is
// missing from the working tree, so it is reported as deleted; what stands in its place is untracked; nothing is modified.
func VP_C13_KindChange() {
	vpInitRepo()
	w := zzvp.Root()
	maxc := zzvp.Param("complen", 2)
	top := vpPath("k", 1, maxc)
	leaf := vpPath("l", 1, maxc)
	other := vpPath("o", zzvp.Param("depth", 2), maxc)
	zzvp.Assume(other != top && !vpHasDirPrefix(other, top) && !vpHasDirPrefix(top, other))
	zzvp.WriteFile(w+"/"+other, []byte("O"))
	vpOK(zzvp.Run("add", other))
	var oldPath, newPath string
	if zzvp.Choose(2) == 0 {
		oldPath, newPath = top, top+"/"+leaf
	} else {
		oldPath, newPath = top+"/"+leaf, top
	}
	zzvp.WriteFile(w+"/"+oldPath, []byte("1"))
	vpOK(zzvp.Run("add", oldPath))
	vpOK(zzvp.Run("commit", "-m", "base"))
	zzvp.RemoveAll(w + "/" + top)
	zzvp.WriteFile(w+"/"+newPath, []byte("1"))
	r := zzvp.Run("status")
	zzvp.Assert(r.Exit == 0, "status succeeds")
	st := vpParseStatus(r.Out)
	zzvp.Assert(len(st.staged) == 0 && len(st.modified) == 0, "nothing is staged and nothing is modified")
	zzvp.Assert(vpSameSet(st.deleted, []string{oldPath}), "deleted = exactly the tracked paths missing from the work tree (a directory standing where the file was does not make it present)")
	zzvp.Assert(vpSameSet(st.untracked, []string{newPath}), "untracked = exactly the files on disk that are neither tracked nor ignored nor inside .goit")
	// staging the replacement and editing the other tracked file: the other file is modified, nothing is untracked or deleted
	vpOK(zzvp.Run("add", newPath))
	zzvp.WriteFile(w+"/"+other, []byte("P"))
	st = vpParseStatus(zzvp.Run("status").Out)
	zzvp.Assert(vpSameSet(st.modified, []string{other}) && len(st.deleted) == 0 && len(st.untracked) == 0, "modified = exactly the tracked files whose bytes differ from their staged blob (identical rewrite reports nothing)")
	zzvp.Done()
}

// VP_C13_Ignore: with a .goitignore ('*.ext' entry and a directory entry) status still reports exactly the modified,
// deleted and untracked files that no entry excludes — also those standing next to an ignored file in the same directory.
func VP_C13_Ignore() {
	vpInitRepo()
	w := zzvp.Root()
	maxc := zzvp.Param("complen", 1)
	ext := zzvp.Str("ext", 1, "a-z")
	base := ""
	if zzvp.Choose(2) == 1 {
		base = vpComp("bd", 1) + "/"
	}
	tracked := base + vpComp("tr", maxc)
	untracked := base + vpComp("un", maxc)
	ignored := base + vpComp("ig", maxc) + "." + ext
	igndir := vpComp("idr", 1)
	zzvp.Assume(tracked != untracked && tracked != ignored && untracked != ignored)
	zzvp.Assume(base != igndir+"/" && tracked != igndir && untracked != igndir && ignored != igndir)
	endsExt := func(p string) bool { return len(p) > len(ext) && p[len(p)-len(ext)-1:] == "."+ext }
	zzvp.Assume(!endsExt(tracked) && !endsExt(untracked))
	zzvp.WriteFile(w+"/.goitignore", []byte("*."+ext+"\n"+igndir+"/\n"))
	zzvp.WriteFile(w+"/"+tracked, []byte("1"))
	vpOK(zzvp.Run("add", tracked))
	vpOK(zzvp.Run("add", ".goitignore"))
	vpOK(zzvp.Run("commit", "-m", "base"))
	zzvp.WriteFile(w+"/"+ignored, []byte("i"))
	zzvp.WriteFile(w+"/"+igndir+"/x", []byte("j"))
	zzvp.WriteFile(w+"/"+untracked, []byte("u"))
	var wantMod, wantDel []string
	switch zzvp.Choose(3) {
	case 1:
		zzvp.WriteFile(w+"/"+tracked, []byte("2"))
		wantMod = append(wantMod, tracked)
	case 2:
		zzvp.RemoveAll(w + "/" + tracked)
		wantDel = append(wantDel, tracked)
	}
	r := zzvp.Run("status")
	zzvp.Assert(r.Exit == 0, "status succeeds")
	st := vpParseStatus(r.Out)
	zzvp.Assert(len(st.staged) == 0, "nothing is staged right after a commit")
	zzvp.Assert(vpSameSet(st.modified, wantMod), "modified = exactly the tracked files whose bytes differ from their staged blob (identical rewrite reports nothing)")
	zzvp.Assert(vpSameSet(st.deleted, wantDel), "deleted = exactly the tracked paths missing from the work tree")
	zzvp.Assert(vpSameSet(st.untracked, []string{untracked}), "untracked = exactly the files on disk that are neither tracked nor ignored nor inside .goit")
	zzvp.Done()
}

// VP_C07_EmptyFirst: before the first commit, a staging area that was filled and emptied again (add, then rm; or add, then
// restore is impossible without HEAD) equals the empty HEAD snapshot: the commit is refused and creates nothing.
func VP_C07_EmptyFirst() {
	vpInitRepo()
	w := zzvp.Root()
	n := 1 + zzvp.Choose(2)
	var names []string
	for i := 0; i < n; i++ {
		p := vpPath("e"+string(rune('0'+i)), 2, 1)
		for _, o := range names {
			zzvp.Assume(o != p && !vpHasDirPrefix(p, o) && !vpHasDirPrefix(o, p))
		}
		zzvp.WriteFile(w+"/"+p, []byte("1"))
		vpOK(zzvp.Run("add", p))
		names = append(names, p)
	}
	keep := zzvp.Choose(2) == 1 && n == 2
	for i, p := range names {
		if keep && i == 0 {
			continue
		}
		vpOK(zzvp.Run("rm", p))
	}
	nobj := len(vpAllObjects())
	st := vpParseStatus(zzvp.Run("status").Out)
	r := zzvp.Run("commit", "-m", "first")
	_, exists, _ := vpBranch("main")
	if keep {
		zzvp.Assert(len(st.staged) == 1 && r.Exit == 0 && exists, "commit succeeds iff something is staged")
	} else {
		zzvp.Assert(len(st.staged) == 0, "nothing is listed as staged when the staging area equals the (empty) HEAD snapshot")
		zzvp.Assert(r.Exit == 1 && !exists && len(vpAllObjects()) == nobj, "a commit while the staging area equals the HEAD snapshot is refused, creates no commit and moves no branch")
	}
	zzvp.Done()
}
