package cmd

var vpHarnesses = map[string]func(){
	"VP_C05_TreeRoundTrip": VP_C05_TreeRoundTrip,
	"VP_C02_WriteTree":     VP_C02_WriteTree,
	"VP_C07_Diff":          VP_C07_Diff,
	"VP_Smoke":             VP_Smoke,
	"VP_C02_Commit":        VP_C02_Commit,
	"VP_C03_Step":          VP_C03_Step,
}
