package cmd

var vpHarnesses = map[string]func(){
	"VP_C05_TreeRoundTrip": VP_C05_TreeRoundTrip,
	"VP_C02_WriteTree":     VP_C02_WriteTree,
	"VP_C07_Diff":          VP_C07_Diff,
	"VP_Smoke":             VP_Smoke,
	"VP_C02_Commit":        VP_C02_Commit,
	"VP_C03_Step":          VP_C03_Step,
	"VP_C04_Add":           VP_C04_Add,
	"VP_C04_Rm":            VP_C04_Rm,
	"VP_C04_ReAdd":         VP_C04_ReAdd,
	"VP_C08_Reset":         VP_C08_Reset,
	"VP_C09_Restore":       VP_C09_Restore,
	"VP_C09_RestoreStaged": VP_C09_RestoreStaged,
}
