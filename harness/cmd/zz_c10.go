package cmd

import (
	"github.com/JunNishimura/Goit/internal/zzvp"
)

type vpRefState struct {
	names []string
	ids   []string
	head  string
}

func vpReadRefs() vpRefState {
	var s vpRefState
	for _, n := range zzvp.List(vpG() + "/refs/heads") {
		id, _, _ := vpBranch(n)
		s.names = append(s.names, n)
		s.ids = append(s.ids, string(id))
	}
	s.head = vpHeadRef()
	return s
}

func (s vpRefState) get(n string) (string, bool) {
	for i, x := range s.names {
		if x == n {
			return s.ids[i], true
		}
	}
	return "", false
}

func vpSameRefs(a, b vpRefState) bool {
	if len(a.names) != len(b.names) || a.head != b.head {
		return false
	}
	ok := true
	for i, n := range a.names {
		id, found := b.get(n)
		if !found || id != a.ids[i] {
			ok = false
		}
	}
	return ok
}

// VP_C10_Cli: the branch/HEAD state machine stepped once through the CLI from states with 1–3 branches.
func VP_C10_Cli() {
	vpInitRepo()
	w := zzvp.Root()
	zzvp.WriteFile(w+"/f", []byte("1"))
	vpOK(zzvp.Run("add", "f"))
	vpOK(zzvp.Run("commit", "-m", "c1"))
	c1, _, _ := vpBranch("main")
	nb := zzvp.Choose(3)
	var extra []string
	for i := 0; i < nb; i++ {
		var n string
		if zzvp.Choose(3) == 2 {
			n = []string{"head", "Head"}[zzvp.Choose(2)] // legal branch names that look like HEAD
		} else {
			n = zzvp.Str("b"+string(rune('0'+i)), 1+zzvp.Choose(zzvp.Param("namelen", 2)), "a-zA-Z0-9_.:% \n")
			zzvp.Assume(n != "." && n != "..")
		}
		zzvp.Assume(n != "main")
		for _, e := range extra {
			zzvp.Assume(e != n)
		}
		vpOK(zzvp.Run("branch", n))
		extra = append(extra, n)
	}
	// second commit on main so that branches differ
	zzvp.WriteFile(w+"/f", []byte("2"))
	vpOK(zzvp.Run("add", "f"))
	vpOK(zzvp.Run("commit", "-m", "c2"))
	c2, _, _ := vpBranch("main")
	before := vpReadRefs()
	var q string
	if zzvp.Choose(3) == 2 {
		q = []string{"head", "Head", "HEAD"}[zzvp.Choose(3)]
	} else {
		q = zzvp.Str("q", 1+zzvp.Choose(zzvp.Param("qlen", zzvp.Param("namelen", 2))), "a-zA-Z0-9_.:% \n-")
		zzvp.Assume(q[0] != '-' && q != "." && q != "..")
	}
	_, qExists := before.get(q)
	s0 := zzvp.Snapshot(vpG())
	op := zzvp.Choose(7)
	var r zzvp.Result
	switch op {
	case 0:
		r = zzvp.Run("branch", q)
	case 1:
		r = zzvp.Run("branch", "-d", q)
	case 2:
		r = zzvp.Run("branch", "-r", q)
	case 3:
		r = zzvp.Run("switch", q)
	case 4:
		r = zzvp.Run("switch", "-c", q)
	case 5:
		r = zzvp.Run("update-ref", "refs/heads/"+q, vpHex(c1))
	default:
		r = zzvp.Run("rev-parse", q)
	}
	zzvp.Assert(r.Exit == 0 || r.Exit == 1, "the command ends with status 0 or 1")
	after := vpReadRefs()
	refusedUnchanged := func(msg string) {
		zzvp.Assert(r.Exit == 1, msg)
		zzvp.Assert(vpSameRefs(before, after) && zzvp.SnapEq(s0, zzvp.Snapshot(vpG())), "a refused operation changes nothing")
	}
	others := func(except ...string) bool {
		ok := true
		for i, n := range before.names {
			skip := false
			for _, e := range except {
				if e == n {
					skip = true
				}
			}
			if skip {
				continue
			}
			id, found := after.get(n)
			if !found || id != before.ids[i] {
				ok = false
			}
		}
		return ok
	}
	switch op {
	case 0:
		if qExists {
			refusedUnchanged("creating a branch under an existing name is refused")
		} else {
			id, found := after.get(q)
			zzvp.Assert(r.Exit == 0 && found && id == string(c2) && len(after.names) == len(before.names)+1 && others() && after.head == "main",
				"creating a branch adds exactly one branch at the current HEAD commit")
		}
	case 1:
		if !qExists || q == "main" {
			refusedUnchanged("deleting the current branch or an unknown name is refused")
		} else {
			_, found := after.get(q)
			zzvp.Assert(r.Exit == 0 && !found && len(after.names) == len(before.names)-1 && others(q) && after.head == "main", "deleting removes exactly that branch")
		}
	case 2:
		if qExists {
			refusedUnchanged("renaming to an existing name is refused")
		} else {
			id, found := after.get(q)
			_, old := after.get("main")
			zzvp.Assert(r.Exit == 0 && found && id == string(c2) && !old && len(after.names) == len(before.names) && others("main") && after.head == q,
				"renaming gives the current branch a new name with the same commit and HEAD follows it")
		}
	case 3:
		if !qExists {
			refusedUnchanged("switching to an unknown branch is refused")
		} else {
			zzvp.Assert(r.Exit == 0 && after.head == q && others() && len(after.names) == len(before.names), "switch changes which branch HEAD names and nothing else")
		}
	case 4:
		if qExists {
			refusedUnchanged("switch -c to an existing name is refused")
		} else {
			id, found := after.get(q)
			zzvp.Assert(r.Exit == 0 && found && id == string(c2) && after.head == q && others() && len(after.names) == len(before.names)+1,
				"switch -c creates the branch at the current commit and HEAD names it")
		}
	case 5:
		if !qExists {
			refusedUnchanged("update-ref of an unknown branch is refused")
		} else {
			id, _ := after.get(q)
			zzvp.Assert(r.Exit == 0 && id == string(c1) && others(q) && len(after.names) == len(before.names), "update-ref sets the named branch to the given commit; all others keep theirs")
		}
	default:
		if qExists {
			id, _ := before.get(q)
			zzvp.Assert(r.Exit == 0 && r.Out == vpHex([]byte(id))+"\n", "rev-parse reports exactly the stored commit of the branch")
		} else if q == "HEAD" {
			id, _ := before.get(before.head)
			zzvp.Assert(r.Exit == 0 && r.Out == vpHex([]byte(id))+"\n", "rev-parse HEAD reports the commit of the current branch")
		} else {
			zzvp.Assert(r.Exit == 1, "rev-parse refuses an unknown name")
		}
		zzvp.Assert(vpSameRefs(before, after), "rev-parse changes nothing")
	}
	// branch --list reports exactly the stored state
	l := zzvp.Run("branch", "--list")
	want := ""
	for _, n := range after.names {
		if n == after.head {
			want += "* " + n + "\n"
		} else {
			want += n + "\n"
		}
	}
	zzvp.Assert(l.Exit == 0 && l.Out == want, "branch --list reports exactly the stored branches and marks the current one")
	zzvp.Assert(vpFsck() == "", "the repository is connected afterwards")
	zzvp.Done()
}
