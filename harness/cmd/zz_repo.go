package cmd

import (
	"github.com/JunNishimura/Goit/internal/zzvp"
)

// ---- independent readers of the on-disk repository (specification side; none of Goit's decoders is used) ----

func vpG() string { return zzvp.Root() + "/.goit" }

func vpHexVal(c byte) int {
	switch {
	case c >= '0' && c <= '9':
		return int(c - '0')
	case c >= 'a' && c <= 'f':
		return int(c-'a') + 10
	}
	return -1
}

// vpUnhex: 40 lower-case hex digits -> 20 bytes
func vpUnhex(s string) ([]byte, bool) {
	if len(s) != 40 {
		return nil, false
	}
	out := make([]byte, 20)
	for i := 0; i < 20; i++ {
		a, b := vpHexVal(s[2*i]), vpHexVal(s[2*i+1])
		if a < 0 || b < 0 {
			return nil, false
		}
		out[i] = byte(a<<4 | b)
	}
	return out, true
}

func vpHex(b []byte) string {
	const d = "0123456789abcdef"
	out := make([]byte, 0, 2*len(b))
	for _, c := range b {
		out = append(out, d[c>>4], d[c&15])
	}
	return string(out)
}

// vpReadIndex decodes .goit/index by the documented layout.
func vpReadIndex() ([]vpPair, bool) {
	b, ok := zzvp.ReadFile(vpG() + "/index")
	if !ok {
		return nil, true // no staging area yet
	}
	if len(b) < 12 || string(b[:4]) != "DIRC" {
		return nil, false
	}
	n := int(b[8])<<24 | int(b[9])<<16 | int(b[10])<<8 | int(b[11])
	var out []vpPair
	p := 12
	for i := 0; i < n; i++ {
		if p+22 > len(b) {
			return nil, false
		}
		id := string(b[p : p+20])
		l := int(b[p+20])<<8 | int(b[p+21])
		p += 22
		if p+l > len(b) {
			return nil, false
		}
		out = append(out, vpPair{string(b[p : p+l]), id})
		p += l
	}
	if p != len(b) {
		return nil, false
	}
	return out, true
}

// vpBranch: (id, exists, wellFormed) of refs/heads/<name>
func vpBranch(name string) ([]byte, bool, bool) {
	b, ok := zzvp.ReadFile(vpG() + "/refs/heads/" + name)
	if !ok {
		return nil, false, false
	}
	id, ok := vpUnhex(string(b))
	return id, true, ok
}

// vpHeadRef: the branch HEAD names ("" if malformed)
func vpHeadRef() string {
	b, ok := zzvp.ReadFile(vpG() + "/HEAD")
	const pre = "ref: refs/heads/"
	if !ok || len(b) <= len(pre) || string(b[:len(pre)]) != pre {
		return ""
	}
	return string(b[len(pre):])
}

type vpCommitInfo struct {
	tree      []byte
	parents   [][]byte
	author    string
	committer string
	message   string // text after the blank line, without the final newline
	ok        bool
}

// vpParseCommit: independent parser of the commit format.
func vpParseCommit(data []byte) vpCommitInfo {
	var c vpCommitInfo
	s := string(data)
	pos := 0
	line := func() (string, bool) {
		for i := pos; i < len(s); i++ {
			if s[i] == '\n' {
				l := s[pos:i]
				pos = i + 1
				return l, true
			}
		}
		return "", false
	}
	for {
		l, ok := line()
		if !ok {
			return c
		}
		if l == "" {
			break
		}
		switch {
		case len(l) == 45 && l[:5] == "tree ":
			id, ok := vpUnhex(l[5:])
			if !ok {
				return c
			}
			c.tree = id
		case len(l) == 47 && l[:7] == "parent ":
			id, ok := vpUnhex(l[7:])
			if !ok {
				return c
			}
			c.parents = append(c.parents, id)
		case len(l) > 7 && l[:7] == "author ":
			c.author = l[7:]
		case len(l) > 10 && l[:10] == "committer ":
			c.committer = l[10:]
		default:
			return c
		}
	}
	rest := s[pos:]
	if len(rest) == 0 || rest[len(rest)-1] != '\n' {
		return c
	}
	c.message = rest[:len(rest)-1]
	c.ok = c.tree != nil
	return c
}

// vpFsck: the connectivity invariant of C03, checked with the independent readers above.
// Returns "" when the repository is connected, otherwise what is broken.
func vpFsck() string {
	g := vpG()
	head := vpHeadRef()
	if head == "" {
		return "HEAD does not name a branch"
	}
	// every stored object's file name is the SHA-1 of its content
	for _, d := range zzvp.List(g + "/objects") {
		for _, f := range zzvp.List(g + "/objects/" + d) {
			raw, ok := zzvp.ReadZ(g + "/objects/" + d + "/" + f)
			if !ok {
				return "an object file does not inflate"
			}
			if vpHex(zzvp.Sha1(raw)) != d+f {
				return "an object file's name is not the SHA-1 of its content"
			}
		}
	}
	for _, b := range zzvp.List(g + "/refs/heads") {
		id, _, wf := vpBranch(b)
		if !wf {
			return "a branch does not hold a full id"
		}
		if msg := vpCheckCommit(id, 0); msg != "" {
			return msg
		}
	}
	idx, ok := vpReadIndex()
	if !ok {
		return "the staging area does not decode"
	}
	for _, e := range idx {
		kind, _, ok := vpReadObject(g, []byte(e.hash))
		if !ok || kind != "blob" {
			return "a staged path does not refer to an existing blob"
		}
	}
	return ""
}

func vpCheckCommit(id []byte, depth int) string {
	kind, data, ok := vpReadObject(vpG(), id)
	if !ok {
		return "a branch or parent link names a missing object"
	}
	if kind != "commit" {
		return "a branch or parent link names an object that is not a commit"
	}
	c := vpParseCommit(data)
	if !c.ok {
		return "a commit does not parse"
	}
	if msg := vpCheckTree(c.tree, 0); msg != "" {
		return msg
	}
	if depth < 8 {
		for _, p := range c.parents {
			if msg := vpCheckCommit(p, depth+1); msg != "" {
				return msg
			}
		}
	}
	return ""
}

func vpCheckTree(id []byte, depth int) string {
	kind, data, ok := vpReadObject(vpG(), id)
	if !ok || kind != "tree" {
		return "a snapshot (tree) is missing or of the wrong kind"
	}
	i := 0
	for i < len(data) {
		sp := i
		for sp < len(data) && data[sp] != ' ' {
			sp++
		}
		nul := sp + 1
		for nul < len(data) && data[nul] != 0 {
			nul++
		}
		if sp >= len(data) || nul+21 > len(data) {
			return "a tree object is malformed"
		}
		mode := string(data[i:sp])
		child := data[nul+1 : nul+21]
		i = nul + 21
		if mode == "040000" || mode == "40000" {
			if depth > 6 {
				return "tree too deep"
			}
			if msg := vpCheckTree(child, depth+1); msg != "" {
				return msg
			}
		} else {
			k, _, ok := vpReadObject(vpG(), child)
			if !ok || k != "blob" {
				return "a snapshot entry refers to a missing object or one of the wrong kind"
			}
		}
	}
	return ""
}

// vpBlobID: the id Git assigns to a file's bytes
func vpBlobID(content []byte) []byte {
	n := len(content)
	dec := ""
	if n == 0 {
		dec = "0"
	}
	for n > 0 {
		dec = string(rune('0'+n%10)) + dec
		n /= 10
	}
	return zzvp.Sha1(append([]byte("blob "+dec+"\x00"), content...))
}

func vpFindPair(ps []vpPair, path string) (string, bool) {
	for _, p := range ps {
		if p.path == path {
			return p.hash, true
		}
	}
	return "", false
}

func vpSamePairList(a, b []vpPair) bool {
	if len(a) != len(b) {
		return false
	}
	ok := true
	for i := range a {
		if a[i].path != b[i].path || a[i].hash != b[i].hash {
			ok = false
		}
	}
	return ok
}
