package cmd

import (
	"github.com/JunNishimura/Goit/internal/zzvp"
)

// vpOffset: every quarter-hour UTC offset in [-12:00, +14:00]; seconds and the expected "+HHMM" text
func vpOffset() (int, string) {
	neg := zzvp.Bool("west")
	hh := zzvp.Int("hh", 0, 14)
	qm := zzvp.Int("quarter", 0, 3)
	zzvp.Assume(!(hh == 14 && qm != 0))
	zzvp.Assume(!(neg && (hh > 12 || (hh == 12 && qm != 0))))
	zzvp.Assume(!(neg && hh == 0 && qm == 0))
	off := hh*3600 + qm*900
	sign := "+"
	if neg {
		off = -off
		sign = "-"
	}
	h1, h0 := byte('0'), byte(hh)+'0'
	if hh >= 10 {
		h1, h0 = '1', byte(hh-10)+'0'
	}
	mm := "00"
	switch qm {
	case 1:
		mm = "15"
	case 2:
		mm = "30"
	case 3:
		mm = "45"
	}
	return off, sign + string([]byte{h1, h0}) + mm
}

func vpContains(s, sub string) bool {
	for i := 0; i+len(sub) <= len(s); i++ {
		if s[i:i+len(sub)] == sub {
			return true
		}
	}
	return false
}

// VP_C12_Cli: commit succeeds in every time zone and the stored commit reads back with the same identity, instant, offset and message.
func VP_C12_Cli() {
	vpInitRepo()
	w, g := zzvp.Root(), vpG()
	off, offText := vpOffset()
	digits := zzvp.Str("unix", 10, "0-9")
	zzvp.SetClock(digits, off)
	msg := zzvp.Str("msg", zzvp.Choose(zzvp.Param("msglen", 3)+1), vpMsgAlpha)
	zzvp.WriteFile(w+"/f", []byte("1"))
	vpOK(zzvp.Run("add", "f"))
	r := zzvp.Run("commit", "-m", msg)
	zzvp.Assert(r.Exit == 0, "commit succeeds in every time zone from -12:00 to +14:00")
	if r.Exit != 0 {
		return
	}
	tip, _, _ := vpBranch("main")
	_, data, ok := vpReadObject(g, tip)
	c := vpParseCommit(data)
	zzvp.Assert(ok && c.ok, "the commit object is well-formed")
	const pre = "A U Thor <a@b.cd> "
	suf := " " + offText
	form := c.committer == c.author && len(c.author) > len(pre)+len(suf) && c.author[:len(pre)] == pre && c.author[len(c.author)-len(suf):] == suf
	if form {
		for _, d := range []byte(c.author[len(pre) : len(c.author)-len(suf)]) {
			if d < '0' || d > '9' {
				form = false
			}
		}
	}
	zzvp.Assert(form, "author and committer lines have the form `Name <email> <unix-seconds> +HHMM|-HHMM` with the zone's offset")
	if zzvp.ClockControlled() {
		zzvp.Assert(c.author == pre+digits+suf, "the recorded instant is the commit's instant [model-only]")
	}
	zzvp.Assert(c.message == msg, "the message is stored unchanged")
	p := zzvp.Run("cat-file", "-p", vpHex(tip))
	zzvp.Assert(p.Exit == 0 && p.Out == string(data)+"\n", "cat-file -p prints the stored commit")
	l := zzvp.Run("log")
	zzvp.Assert(l.Exit == 0 && vpContains(l.Out, "commit "+vpHex(tip)+"\n") && vpContains(l.Out, "Author: A U Thor <a@b.cd>\n"), "log reads the commit back with its id and author")
	zzvp.Done()
}

// vpParseConfig: independent reader of the config file format written by Goit: [section] lines and "\tkey = value" lines
func vpParseConfig(path string) ([]vpKV3, bool) {
	b, ok := zzvp.ReadFile(path)
	if !ok {
		return nil, true
	}
	var out []vpKV3
	sec := ""
	for _, l := range vpSplitLines(string(b)) {
		if len(l) >= 2 && l[0] == '[' && l[len(l)-1] == ']' {
			sec = l[1 : len(l)-1]
			continue
		}
		if len(l) < 1 || l[0] != '\t' {
			return nil, false
		}
		l = l[1:]
		eq := -1
		for i := 0; i+2 < len(l); i++ {
			if l[i:i+3] == " = " {
				eq = i
				break
			}
		}
		if eq < 0 {
			return nil, false
		}
		out = append(out, vpKV3{sec, l[:eq], l[eq+3:]})
	}
	return out, true
}

type vpKV3 struct{ sec, key, val string }

// VP_C20_Cli: a sequence of config writes; every key of every section keeps exactly the last value set; commit uses the effective identity.
func VP_C20_Cli() {
	vpOK(zzvp.Run("init"))
	w := zzvp.Root()
	var local, global []vpKV3
	set := func(m []vpKV3, kv vpKV3) []vpKV3 {
		for i := range m {
			if m[i].sec == kv.sec && m[i].key == kv.key {
				m[i].val = kv.val
				return m
			}
		}
		return append(m, kv)
	}
	n := 1 + zzvp.Choose(zzvp.Param("writes", 3))
	for i := 0; i < n; i++ {
		id := string(rune('0' + i))
		var sec, key string
		switch zzvp.Choose(3) {
		case 0:
			sec, key = "user", "name"
		case 1:
			sec, key = "user", "email"
		default:
			sec, key = zzvp.Str("sec"+id, 1, "a-z"), zzvp.Str("key"+id, 1, "a-z")
		}
		var val string
		if sec == "user" && key == "email" {
			val = zzvp.Str("em"+id, 1, "a-z") + "@b.cd"
		} else {
			// printable characters, inner single spaces; '<' excluded for names (never accepted in a sign line)
			val = zzvp.Str("v"+id+"a", 1, "!-;=-~")
			if zzvp.Choose(2) == 1 {
				val += zzvp.Str("v"+id+"m", 1, " -;=-~") + zzvp.Str("v"+id+"z", 1, "!-;=-~")
			}
		}
		isGlobal := zzvp.Choose(2) == 1
		var r zzvp.Result
		if isGlobal {
			r = zzvp.Run("config", "--global", sec+"."+key, val)
			global = set(global, vpKV3{sec, key, val})
		} else {
			r = zzvp.Run("config", sec+"."+key, val)
			local = set(local, vpKV3{sec, key, val})
		}
		zzvp.Assert(r.Exit == 0, "config succeeds")
		for _, pair := range []struct {
			path string
			want []vpKV3
		}{{vpG() + "/config", local}, {zzvp.Home() + "/.goitconfig", global}} {
			got, ok := vpParseConfig(pair.path)
			same := ok && len(got) == len(pair.want)
			for _, kv := range pair.want {
				found := false
				for _, g := range got {
					if g == kv {
						found = true
					}
				}
				if !found {
					same = false
				}
			}
			zzvp.Assert(same, "after each config write every key of every section of both files holds exactly the last value set")
		}
	}
	eff := func(key string) (string, bool) {
		for _, kv := range local {
			if kv.sec == "user" && kv.key == key {
				return kv.val, true
			}
		}
		for _, kv := range global {
			if kv.sec == "user" && kv.key == key {
				return kv.val, true
			}
		}
		return "", false
	}
	name, hasName := eff("name")
	email, hasEmail := eff("email")
	zzvp.WriteFile(w+"/f", []byte("1"))
	vpOK(zzvp.Run("add", "f"))
	s0 := zzvp.Snapshot(w)
	r := zzvp.Run("commit", "-m", "m")
	if !(hasName && hasEmail) {
		zzvp.Assert(r.Exit == 1 && zzvp.SnapEq(s0, zzvp.Snapshot(w)), "commit is refused, without side effects, until both a name and an e-mail are configured")
	} else {
		zzvp.Assert(r.Exit == 0, "commit succeeds once the identity is configured")
		if r.Exit == 0 {
			tip, _, _ := vpBranch("main")
			_, data, _ := vpReadObject(vpG(), tip)
			c := vpParseCommit(data)
			pre := name + " <" + email + "> "
			zzvp.Assert(len(c.author) > len(pre) && c.author[:len(pre)] == pre, "the commit uses the configured value unchanged; local overrides global")
		}
	}
	zzvp.Done()
}

func vpLsFiles() ([]vpPair, bool) {
	r := zzvp.Run("ls-files", "-s")
	if r.Exit != 0 {
		return nil, false
	}
	var out []vpPair
	for _, l := range vpSplitLines(r.Out) {
		if len(l) < 45 {
			return nil, false
		}
		id, ok := vpUnhex(l[:40])
		if !ok || l[40:44] != "    " {
			return nil, false
		}
		out = append(out, vpPair{l[44:], string(id)})
	}
	return out, true
}

// vpSortedPairs: (path, blob id of content) of the given files in ascending byte order of path (insertion sort in the harness)
func vpSortedPairs(fs []vpFile) []vpPair {
	var out []vpPair
	for _, f := range fs {
		p := vpPair{f.path, string(vpBlobID(f.content))}
		i := len(out)
		out = append(out, p)
		for i > 0 && out[i-1].path > p.path {
			out[i] = out[i-1]
			i--
		}
		out[i] = p
	}
	return out
}

// VP_C05_Cli: reset --mixed to a commit makes ls-files -s equal the set staged when it was made (names with spaces, empty snapshot,
// a tracked file re-staged between the commits).
func VP_C05_Cli() {
	vpInitRepo()
	w := zzvp.Root()
	files := vpWorkFiles(1+zzvp.Choose(zzvp.Param("files", 2)), zzvp.Param("depth", 2), zzvp.Param("complen", 2), 1)
	if zzvp.Choose(2) == 1 {
		// a concrete exemplar of non-ASCII names (symbolic non-ASCII bytes are outside the claim)
		nf := vpFile{"d\xc3\xa9j\xc3\xa0/\xe6\x97\xa5\xe6\x9c\xac.txt", []byte("n")}
		zzvp.WriteFile(w+"/"+nf.path, nf.content)
		files = append(files, nf)
	}
	for _, f := range files {
		vpOK(zzvp.Run("add", f.path))
	}
	vpOK(zzvp.Run("commit", "-m", "A"))
	wantA := vpSortedPairs(files)
	var wantB []vpPair
	if zzvp.Choose(2) == 1 {
		for _, f := range files {
			vpOK(zzvp.Run("rm", f.path))
		}
		vpOK(zzvp.Run("commit", "-m", "all removed"))
	} else {
		// re-stage one tracked file (any of them, not only the last one in path order) with new content
		k := zzvp.Choose(len(files))
		files[k].content = []byte("changed")
		zzvp.WriteFile(w+"/"+files[k].path, files[k].content)
		vpOK(zzvp.Run("add", files[k].path))
		vpOK(zzvp.Run("commit", "-m", "B"))
		wantB = vpSortedPairs(files)
	}
	// further staging, then back to A
	zzvp.WriteFile(w+"/zz", []byte("z"))
	vpOK(zzvp.Run("add", "zz"))
	r := zzvp.Run("reset", "--mixed", "HEAD@{1}")
	zzvp.Assert(r.Exit == 0, "reset --mixed to a commit Goit created succeeds")
	ls, ok := vpLsFiles()
	zzvp.Assert(ok && vpSamePairList(ls, wantA), "after reset --mixed to commit A, ls-files -s equals the set staged when A was made")
	// and forward again to B (position 1 is now B)
	r = zzvp.Run("reset", "--mixed", "HEAD@{1}")
	zzvp.Assert(r.Exit == 0, "reset --mixed to the later commit succeeds (also when its snapshot is empty)")
	ls, ok = vpLsFiles()
	zzvp.Assert(ok && vpSamePairList(ls, wantB), "after reset --mixed to commit B, ls-files -s equals the set staged when B was made")
	st := zzvp.Run("status")
	zzvp.Assert(st.Exit == 0, "status works on every snapshot Goit wrote")
	zzvp.Done()
}

// VP_C01_Cli: hash-object, add and cat-file agree on the blob id = SHA-1("blob <len>\0<bytes>").
func VP_C01_Cli() {
	vpInitRepo()
	w := zzvp.Root()
	content := zzvp.Bytes("content", zzvp.Choose(zzvp.Param("payload", 3)+1), "")
	zzvp.WriteFile(w+"/f", content)
	want := vpHex(vpBlobID(content))
	h := zzvp.Run("hash-object", "f")
	zzvp.Assert(h.Exit == 0 && h.Out == want+"\n", "hash-object prints the SHA-1 of 'blob <length>\\0<bytes>'")
	vpOK(zzvp.Run("add", "f"))
	idx, _ := vpReadIndex()
	id, found := vpFindPair(idx, "f")
	zzvp.Assert(found && vpHex([]byte(id)) == want, "add stages the file under the id hash-object prints")
	t := zzvp.Run("cat-file", "-t", want)
	zzvp.Assert(t.Exit == 0 && t.Out == "blob\n", "cat-file -t reports the kind")
	p := zzvp.Run("cat-file", "-p", want)
	zzvp.Assert(p.Exit == 0 && p.Out == string(content)+"\n", "cat-file -p returns exactly the stored bytes")
	// several files in one call: each line is that file's own id (also for a repeated and for an empty file)
	second := zzvp.Bytes("second", zzvp.Choose(2), "")
	zzvp.WriteFile(w+"/g", second)
	m := zzvp.Run("hash-object", "f", "g", "f")
	zzvp.Assert(m.Exit == 0 && m.Out == want+"\n"+vpHex(vpBlobID(second))+"\n"+want+"\n", "hash-object prints, for every file named, the SHA-1 of 'blob <length>\\0<bytes>'")
	vpOK(zzvp.Run("add", "g", "f"))
	q := zzvp.Run("cat-file", "-p", vpHex(vpBlobID(second)))
	zzvp.Assert(q.Exit == 0 && q.Out == string(second)+"\n", "cat-file -p returns exactly the stored bytes")
	zzvp.Done()
}

// VP_C19_BranchFileCli: the current branch's file holds its 40 hex digits followed or preceded by stray bytes (a trailing
// line break from an editor, a blank, a digit): commands either report the damage or work on the right commit; `commit`
// never builds a new commit out of the damaged text.
func VP_C19_BranchFileCli() {
	vpInitRepo()
	w, g := zzvp.Root(), vpG()
	zzvp.WriteFile(w+"/f", []byte("1"))
	vpOK(zzvp.Run("add", "f"))
	vpOK(zzvp.Run("commit", "-m", "c1"))
	c1, _, _ := vpBranch("main")
	stray := zzvp.Bytes("stray", 1+zzvp.Choose(zzvp.Param("stray", 2)), "")
	text := vpHex(c1) + string(stray)
	if zzvp.Choose(2) == 1 {
		text = string(stray) + vpHex(c1)
	}
	zzvp.WriteFile(g+"/refs/heads/main", []byte(text))
	zzvp.WriteFile(w+"/f", []byte("2"))
	a := zzvp.Run("add", "f")
	zzvp.Assert(a.Exit == 0 || a.Exit == 1, "no command crashes on the damaged branch file")
	r := zzvp.Run("commit", "-m", "c2")
	zzvp.Assert(r.Exit == 0 || r.Exit == 1, "no command crashes on the damaged branch file")
	if a.Exit == 0 && r.Exit == 0 {
		tip, _, wf := vpBranch("main")
		_, data, ok := vpReadObject(g, tip)
		c := vpParseCommit(data)
		const ident = "A U Thor <a@b.cd> "
		zzvp.Assert(wf && ok && c.ok && len(c.parents) == 1 && string(c.parents[0]) == string(c1) && len(c.author) > len(ident) && c.author[:len(ident)] == ident && c.message == "c2",
			"a commit made on top of a branch file that was accepted has exactly the stored commit as its parent and intact author and message")
	}
	l := zzvp.Run("log")
	zzvp.Assert(l.Exit == 0 || l.Exit == 1, "no command crashes on the damaged branch file")
	zzvp.Done()
}
