package cmd

import (
	"github.com/JunNishimura/Goit/internal/zzvp"
)

// vpScenario prepares a reachable state and returns the modifying command to interrupt / disturb.
// cmdIdx selects the command; the state is the one in which that command has real work to do.
func vpScenario(cmdIdx int) (argv []string, first []byte) {
	w := zzvp.Root()
	if cmdIdx == 0 {
		return []string{"init"}, nil
	}
	vpInitRepo()
	if cmdIdx == 1 {
		return []string{"config", "user.name", "Other Name"}, nil
	}
	zzvp.WriteFile(w+"/a", []byte("1"))
	zzvp.WriteFile(w+"/d/b", []byte("2"))
	zzvp.WriteFile(w+"/d/c", []byte("2")) // same bytes as d/b: one blob for two paths
	// an ignore file and a file it excludes: reading .goitignore is one of the fallible reads of add
	zzvp.WriteFile(w+"/.goitignore", []byte("*.log\n"))
	zzvp.WriteFile(w+"/d/t.log", []byte("L"))
	if cmdIdx == 2 {
		return []string{"add", "a", "d"}, nil
	}
	vpOK(zzvp.Run("add", "a", "d"))
	if cmdIdx == 3 {
		return []string{"commit", "-m", "first"}, nil // first commit
	}
	vpOK(zzvp.Run("commit", "-m", "first"))
	first, _, _ = vpBranch("main")
	vpOK(zzvp.Run("branch", "dev"))
	zzvp.WriteFile(w+"/a", []byte("3"))
	switch cmdIdx {
	case 4:
		return []string{"add", "a"}, first
	case 5:
		vpOK(zzvp.Run("add", "a"))
		return []string{"commit", "-m", "second"}, first
	case 6:
		return []string{"branch", "topic"}, first
	case 7:
		return []string{"branch", "-r", "trunk"}, first
	case 8:
		return []string{"branch", "-d", "dev"}, first
	case 9:
		return []string{"switch", "dev"}, first
	case 10:
		return []string{"switch", "-c", "topic"}, first
	case 11:
		return []string{"rm", "d/b"}, first
	case 12:
		return []string{"restore", "a"}, first
	case 18:
		return []string{"rm", "d"}, first // a whole tracked directory
	case 19:
		zzvp.RemoveAll(w + "/d")
		return []string{"restore", "d"}, first // re-creates a directory and two files
	case 20:
		zzvp.RemoveAll(w + "/a")
		zzvp.WriteFile(w+"/a/x", []byte("9"))
		return []string{"add", "a"}, first // the tracked file has become a directory
	case 21:
		vpOK(zzvp.Run("switch", "dev"))
		vpOK(zzvp.Run("add", "a"))
		return []string{"commit", "-m", "on dev"}, first // commit on a branch other than the first
	case 23:
		return []string{"config", "--global", "user.name", "Glob"}, first
	case 24:
		vpOK(zzvp.Run("switch", "dev"))
		return []string{"branch", "-r", "zeta"}, first // rename that changes the branch's sort position
	case 25:
		zzvp.WriteFile(w+"/n/m", []byte("5"))
		zzvp.RemoveAll(w + "/d/c")
		return []string{"add", "."}, first // new directory, edited file and deleted file in one add
	}
	if cmdIdx == 22 {
		zzvp.WriteFile(w+"/n/m", []byte("5"))
		vpOK(zzvp.Run("add", "n/m"))
	}
	vpOK(zzvp.Run("add", "a"))
	vpOK(zzvp.Run("commit", "-m", "second"))
	switch cmdIdx {
	case 13:
		return []string{"reset", "--soft", "HEAD@{1}"}, first
	case 14:
		return []string{"reset", "--mixed", "HEAD@{1}"}, first
	case 15:
		zzvp.RemoveAll(w + "/d")
		return []string{"reset", "--hard", "HEAD@{1}"}, first
	case 16:
		return []string{"update-ref", "refs/heads/dev", vpHexOfBranch("main")}, first
	case 17:
		vpOK(zzvp.Run("rm", "a"))
		return []string{"restore", "--staged", "a"}, first
	case 22:
		return []string{"reset", "--hard", "HEAD@{1}"}, first // the target lacks a directory the current commit has
	// read-only commands: a failing read must not turn into a silently different report (C16; no modification to interrupt)
	case 26:
		return []string{"reflog"}, first
	case 27:
		zzvp.WriteFile(w+"/a", []byte("4"))
		return []string{"status"}, first
	case 28:
		return []string{"log"}, first
	case 29:
		return []string{"ls-files", "-s"}, first
	case 30:
		return []string{"branch", "--list"}, first
	case 31:
		return []string{"cat-file", "-p", vpHexOfBranch("main")}, first
	}
	return []string{"status"}, first
}

const vpNumScenarios = 32

func vpHexOfBranch(n string) string {
	id, _, _ := vpBranch(n)
	return vpHex(id)
}

// vpUsable: after the event every read-only command still loads the repository (exit 0 or 1 by argument validation only, no crash).
func vpUsable() bool {
	ok := true
	for _, c := range [][]string{{"ls-files"}, {"rev-parse", "HEAD"}, {"log"}, {"status"}, {"reflog"}, {"branch", "--list"}} {
		r := zzvp.Run(c...)
		if r.Exit != 0 {
			ok = false
		}
	}
	return ok
}

// VP_C15_Crash: a process killed right after any one of its file-system modifications leaves a usable, connected repository,
// and every branch names either its old commit or the commit the command was installing.
func VP_C15_Crash() {
	ci := zzvp.Choose(zzvp.Param("scenarios", vpNumScenarios))
	argv, _ := vpScenario(ci)
	hadRepo := zzvp.Exists(vpG() + "/HEAD")
	before := vpReadRefs()
	wasConnected := !hadRepo || vpFsck() == ""
	zzvp.Assume(wasConnected)
	hadCommit := len(before.names) > 0
	k := zzvp.Int("k", 1, zzvp.Param("maxmut", 40))
	zzvp.CrashAt(k)
	r := zzvp.Run(argv...)
	zzvp.NoCrash()
	zzvp.Assert(zzvp.Mutations() < zzvp.Param("maxmut", 40), "the crash index range covers every modification of the command (unwinding check)")
	zzvp.Assume(zzvp.Crashed())
	_ = r
	if argv[0] == "init" {
		// an interrupted init must not leave a half-made repository: either nothing that counts as a repository exists and
		// init can simply be run again, or the repository is complete
		again := zzvp.Run("init")
		zzvp.Assert(again.Exit == 0 || again.Exit == 1, "init after an interrupted init does not crash")
		st := zzvp.Run("status")
		zzvp.Assert(st.Exit == 0 && vpHeadRef() == "main", "after an interrupted init, running init again (or the completed first run) yields a usable repository")
		zzvp.Done()
		return
	}
	after := vpReadRefs()
	zzvp.Assert(vpFsck() == "", "after the crash HEAD names a branch, every branch names an existing complete commit, every staged blob exists")
	okBranches := true
	for i, n := range before.names {
		id, found := after.get(n)
		if !found {
			// a branch may disappear only by the command that deletes / renames it
			if !(argv[0] == "branch" && (argv[1] == "-d" || argv[1] == "-r")) {
				okBranches = false
			}
			continue
		}
		if id != before.ids[i] {
			// moved: only the branch the command was moving, to a commit that exists (checked by fsck) and extends or equals history
			if !(argv[0] == "commit" || argv[0] == "reset" || argv[0] == "update-ref") {
				okBranches = false
			}
		}
	}
	zzvp.Assert(okBranches, "each branch points to the commit it named before or to the one the command was installing")
	if hadCommit {
		zzvp.Assert(vpUsable(), "every read-only command still loads the repository after the crash")
		// debris of the interrupted command (temporary files) must not leak into what later commands write
		for _, f := range [][]string{{"switch", "dev"}, {"switch", "main"}, {"switch", "dev"}} {
			r2 := zzvp.Run(f...)
			zzvp.Assert(r2.Exit == 0 || r2.Exit == 1, "commands after the crash do not crash")
			if r2.Exit == 0 {
				zzvp.Assert(vpHeadRef() == f[1], "a switch that succeeds after the crash makes HEAD name exactly that branch")
			}
		}
		zzvp.Assert(vpFsck() == "" && vpUsable(), "after later commands HEAD still names a branch that holds a complete commit and every read-only command loads the repository")
	} else {
		lf := zzvp.Run("ls-files")
		zzvp.Assert(lf.Exit == 0, "the staging area still loads after the crash")
	}
	zzvp.Done()
}

// VP_C16_Fault: when one fallible file-system call fails, the command reports failure or produces exactly the fault-free result.
func VP_C16_Fault() {
	ci := zzvp.Choose(zzvp.Param("scenarios", vpNumScenarios))
	argv, _ := vpScenario(ci)
	if argv[0] == "init" {
		// a failing init reports the failure and does not block a later init
		k := zzvp.Int("k", 1, zzvp.Param("maxops", 60))
		zzvp.FaultAt(k)
		r := zzvp.Run("init")
		zzvp.NoFault()
		zzvp.Assume(zzvp.Faulted())
		zzvp.Assert(r.Exit == 1, "init reports an I/O failure")
		again := zzvp.Run("init")
		zzvp.Assert(again.Exit == 0 && zzvp.Run("status").Exit == 0, "after a failed init, init can be run again and yields a usable repository")
		zzvp.Done()
		return
	}
	before := vpReadRefs()
	zzvp.Assume(vpFsck() == "")
	// the fault-free twin from the same pre-state
	ck := zzvp.Checkpoint()
	clean := zzvp.Run(argv...)
	cleanSnap := zzvp.Snapshot(zzvp.Root())
	zzvp.Restore(ck)
	k := zzvp.Int("k", 1, zzvp.Param("maxops", 60))
	zzvp.FaultAt(k)
	r := zzvp.Run(argv...)
	zzvp.NoFault()
	zzvp.Assert(zzvp.Ops() < zzvp.Param("maxops", 60), "the fault index range covers every fallible call of the command (unwinding check)")
	zzvp.Assume(zzvp.Faulted())
	zzvp.Assert(r.Exit == 0 || r.Exit == 1, "an I/O failure never crashes the command")
	after := vpReadRefs()
	zzvp.Assert(vpFsck() == "", "after an I/O failure the repository is still connected")
	if r.Exit == 0 {
		// success reported although a call failed: the result must be exactly the fault-free one
		zzvp.Assert(clean.Exit == 0 && zzvp.SnapEq(cleanSnap, zzvp.Snapshot(zzvp.Root())) && r.Out == clean.Out,
			"a command that reports success after an I/O failure produced exactly the result of the failure-free run")
		switch argv[0] {
		case "commit":
			tip, _ := after.get(after.head)
			old, had := before.get(before.head)
			_, data, ok := vpReadObject(vpG(), []byte(tip))
			c := vpParseCommit(data)
			good := ok && c.ok && tip != old
			if had {
				good = good && len(c.parents) == 1 && string(c.parents[0]) == old
			} else {
				good = good && len(c.parents) == 0
			}
			idx, _ := vpReadIndex()
			flat, tok := vpDecodeTree(vpG(), c.tree, "", 0)
			zzvp.Assert(good && tok && vpSamePairList(flat, idx), "a commit reported as successful has its parent link, snapshot and blobs")
		case "add":
			idx, _ := vpReadIndex()
			if cur, isFile := zzvp.ReadFile(zzvp.Root() + "/a"); isFile {
				id, found := vpFindPair(idx, "a")
				zzvp.Assert(found && id == string(vpBlobID(cur)), "an add reported as successful staged the current bytes")
			}
		}
	} else {
		// the failure was reported: the same command, repeated once the fault is gone, must not build on debris of the
		// failed attempt (a half-written object taken for stored, a leftover temporary file taken for a branch)
		if zzvp.Param("retry", 1) == 1 {
			again := zzvp.Run(argv...)
			zzvp.Assert(again.Exit == 0 || again.Exit == 1, "repeating the command after a reported I/O failure never crashes")
			zzvp.Assert(vpFsck() == "", "after the repeated command the repository is still connected: what the staging area and the branches name can be read")
		}
		for i, n := range before.names {
			id, found := after.get(n)
			if found && id != before.ids[i] {
				_, data, ok := vpReadObject(vpG(), []byte(id))
				c := vpParseCommit(data)
				zzvp.Assert(ok && c.ok, "no branch is advanced to a commit that lacks its snapshot")
				if argv[0] == "commit" {
					zzvp.Assert(len(c.parents) == 1 && string(c.parents[0]) == before.ids[i], "no branch is advanced to a commit that lacks its parent link")
				}
			}
		}
	}
	zzvp.Done()
}
