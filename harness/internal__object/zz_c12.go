package object

import (
	"github.com/JunNishimura/Goit/internal/zzvp"
)

// vpIdent: a user name (printable ASCII without '<', no leading/trailing blank) and an e-mail local@label.tld
func vpIdent(maxName int) (string, string) {
	n := 1 + zzvp.Choose(maxName)
	name := zzvp.Str("name0", 1, "!-;=-~")
	if n > 1 {
		if n > 2 {
			name += zzvp.Str("name1", n-2, " -;=-~")
		}
		name += zzvp.Str("name2", 1, "!-;=-~")
	}
	email := zzvp.Str("loc", 1+zzvp.Choose(2), "a-zA-Z0-9_.+-") + "@" + zzvp.Str("dom0", 1, "a-zA-Z0-9") + zzvp.Str("dom1", zzvp.Choose(2), "a-zA-Z0-9-") + "." + zzvp.Str("tld", 2, "a-zA-Z")
	return name, email
}

// vpOffset: every quarter-hour UTC offset in [-12:00, +14:00]; returns seconds and the expected "+HHMM" text
func vpOffset() (int, string) {
	neg := zzvp.Bool("west")
	hh := zzvp.Int("hh", 0, 14)
	qm := zzvp.Int("quarter", 0, 3)
	zzvp.Assume(!(hh == 14 && qm != 0))
	zzvp.Assume(!(neg && (hh > 12 || (hh == 12 && qm != 0))))
	zzvp.Assume(!(neg && hh == 0 && qm == 0))
	off := hh*3600 + qm*900
	sign := "+"
	if neg {
		off = -off
		sign = "-"
	}
	h1, h0 := byte('0'), byte(hh)+'0'
	if hh >= 10 {
		h1, h0 = '1', byte(hh-10)+'0'
	}
	mm := "00"
	switch qm {
	case 1:
		mm = "15"
	case 2:
		mm = "30"
	case 3:
		mm = "45"
	}
	return off, sign + string([]byte{h1, h0}) + mm
}

// VP_C12_Sign: author/committer lines have the Git form and survive the write/read round trip in every time zone.
func VP_C12_Sign() {
	name, email := vpIdent(zzvp.Param("namelen", 3))
	off, offText := vpOffset()
	digits := zzvp.Str("unix", zzvp.Param("unixdigits", 10), "0-9")
	s := Sign{Name: name, Email: email, Timestamp: zzvp.Time(digits, off)}
	text := s.String()
	zzvp.Assert(text == name+" <"+email+"> "+digits+" "+offText, "author/committer line has the form `Name <email> <unix-seconds> +HHMM|-HHMM`")
	back, err := readSign(text)
	zzvp.Assert(err == nil, "a sign line written by Goit is accepted by its own reader")
	if err == nil {
		_, boff := back.Timestamp.Zone()
		zzvp.Assert(back.Name == name && back.Email == email, "name and e-mail survive the round trip")
		zzvp.Assert(back.Timestamp.Unix() == s.Timestamp.Unix(), "the instant survives the round trip")
		zzvp.Assert(boff == off, "the UTC offset (sign included) survives the round trip")
	}
	zzvp.Done()
}
