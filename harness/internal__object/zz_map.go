package object

var vpHarnesses = map[string]func(){
	"VP_C12_Sign":           VP_C12_Sign,
	"VP_C01_RoundTrip":      VP_C01_RoundTrip,
	"VP_C01_Header":         VP_C01_Header,
	"VP_C01_Idempotent":     VP_C01_Idempotent,
	"VP_C19_ReadHeader":     VP_C19_ReadHeader,
	"VP_C19_GetObject":      VP_C19_GetObject,
	"VP_C19_ValidUnderName": VP_C19_ValidUnderName,
	"VP_C19_RawObject":      VP_C19_RawObject,
	"VP_C19_WalkTree":       VP_C19_WalkTree,
	"VP_C19_NewCommit":      VP_C19_NewCommit,
	"VP_C19_ReadSign":       VP_C19_ReadSign,
}
