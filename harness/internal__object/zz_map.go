package object

var vpHarnesses = map[string]func(){
	"VP_C12_Sign": VP_C12_Sign,
}
