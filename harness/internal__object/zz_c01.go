package object

import (
	"bytes"

	"github.com/JunNishimura/Goit/internal/sha"
	"github.com/JunNishimura/Goit/internal/zzvp"
)

func vpGoit() string {
	g := zzvp.Root() + "/.goit"
	zzvp.MkdirAll(g + "/objects")
	return g
}

func vpKind() (Type, string) {
	switch zzvp.Choose(3) {
	case 0:
		return BlobObject, "blob"
	case 1:
		return TreeObject, "tree"
	}
	return CommitObject, "commit"
}

// vpDec: naive decimal formatter (specification side)
func vpDec(n int) string {
	if n == 0 {
		return "0"
	}
	s := ""
	for n > 0 {
		s = string(rune('0'+n%10)) + s
		n /= 10
	}
	return s
}

func vpObjPath(g string, h []byte) string {
	hx := sha.SHA1(h).String()
	return g + "/objects/" + hx[:2] + "/" + hx[2:]
}

// VP_C01_RoundTrip: id = SHA-1("<kind> <len>\0<bytes>"); stored at objects/xx/yyyy…; retrieved with the same kind and bytes.
func VP_C01_RoundTrip() {
	t, kind := vpKind()
	data := zzvp.Bytes("data", zzvp.Choose(zzvp.Param("payload", 6)+1), "")
	n := len(data) // (a replay may scale the payload beyond one inflate window)
	g := vpGoit()
	obj, err := NewObject(t, data)
	zzvp.Assert(err == nil && obj != nil, "an object can be made from any byte string")
	if err != nil || obj == nil {
		return
	}
	plain := append([]byte(kind+" "+vpDec(n)+"\x00"), data...)
	want := zzvp.Sha1(plain)
	zzvp.Assert(string(obj.Hash) == string(want), "the id is the SHA-1 of '<kind> <length>\\0<bytes>'")
	zzvp.Assert(obj.Write(g) == nil, "storing an object succeeds")
	stored, ok := zzvp.ReadZ(vpObjPath(g, want))
	zzvp.Assert(ok && string(stored) == string(plain), "the object file is at objects/<id[0:2]>/<id[2:]> and inflates to header plus bytes")
	dirs := zzvp.List(g + "/objects")
	zzvp.Assert(len(dirs) == 1 && len(zzvp.List(g+"/objects/"+dirs[0])) == 1, "exactly one file is created in the object store")
	back, err := GetObject(g, sha.SHA1(want))
	zzvp.Assert(err == nil && back != nil, "a stored object can be retrieved by its id")
	if err == nil && back != nil {
		zzvp.Assert(back.Type == t && back.Size == n && string(back.Data) == string(data) && string(back.Hash) == string(want),
			"retrieval yields the same kind, size, bytes and id")
	}
	zzvp.Done()
}

// VP_C01_Header: Header()/readHeader agree for every size in range, whatever bytes follow the header.
func VP_C01_Header() {
	t, kind := vpKind()
	digits := 1 + zzvp.Choose(zzvp.Param("sizedigits", 5))
	lim := 1
	for i := 0; i < digits; i++ {
		lim *= 10
	}
	size := zzvp.Int("size", lim/10, lim-1)
	if digits == 1 {
		size = zzvp.Int("size1", 0, 9)
	}
	o := &Object{Type: t, Size: size}
	hdr := o.Header()
	rest := zzvp.Bytes("rest", zzvp.Choose(zzvp.Param("rest", 3)+1), "")
	zzvp.Assert(len(hdr) == len(kind)+1+digits+1 && hdr[len(hdr)-1] == 0 && string(hdr[:len(kind)+1]) == kind+" ", "the header is '<kind> <decimal size>\\0'")
	r := bytes.NewReader(append(append([]byte{}, hdr...), rest...))
	gt, gs, err := readHeader(r)
	zzvp.Assert(err == nil && gt == t && gs == size, "the header reader returns the kind and size that were written")
	left := make([]byte, len(rest)+1)
	k, _ := r.Read(left)
	zzvp.Assert(k == len(rest) && string(left[:k]) == string(rest), "the header reader consumes exactly the header")
	zzvp.Done()
}

// VP_C01_Idempotent: storing again, or storing another object, never changes what is already stored.
func VP_C01_Idempotent() {
	t, _ := vpKind()
	n := zzvp.Choose(zzvp.Param("payload", 4) + 1)
	a, _ := NewObject(t, zzvp.Bytes("a", n, ""))
	g := vpGoit()
	zzvp.Assume(a.Write(g) == nil)
	s0 := zzvp.Snapshot(g)
	zzvp.Assert(a.Write(g) == nil, "storing an object twice succeeds")
	zzvp.Assert(zzvp.SnapEq(s0, zzvp.Snapshot(g)), "storing an object again changes nothing")
	t2, _ := vpKind()
	b, _ := NewObject(t2, zzvp.Bytes("b", zzvp.Choose(zzvp.Param("payload", 4)+1), ""))
	zzvp.Assert(b.Write(g) == nil, "storing a second object succeeds")
	same := string(a.Hash) == string(b.Hash)
	if same {
		zzvp.Assert(t == t2 && string(a.Data) == string(b.Data), "equal ids only for equal kind and content")
		zzvp.Assert(zzvp.SnapEq(s0, zzvp.Snapshot(g)), "equal content maps to the same id and leaves the store unchanged")
	} else {
		ex := vpObjPath(g, b.Hash)
		if a.Hash.String()[:2] != b.Hash.String()[:2] {
			ex = g + "/objects/" + b.Hash.String()[:2] // a new fan-out directory holding only the new object
			zzvp.Assert(len(zzvp.List(ex)) == 1, "the new fan-out directory holds exactly the new object")
		}
		zzvp.Assert(zzvp.SnapEq(s0, zzvp.Snapshot(g), ex), "storing another object leaves every stored object byte-identical")
		back, err := GetObject(g, a.Hash)
		zzvp.Assert(err == nil && string(back.Data) == string(a.Data) && back.Type == t, "the first object is still retrievable unchanged")
	}
	zzvp.Done()
}

// VP_C01_Blocks: objects whose '<kind> <length>\\0<bytes>' text is exactly one or two blocks of 64 KiB (and one byte
// around them): mostly fixed bytes, the first and the last byte free; stored, read back, compared.
func VP_C01_Blocks() {
	g := vpGoit()
	total := []int{65536, 131072, 32768}[zzvp.Choose(3)] + zzvp.Choose(3) - 1
	hdr := len("blob ") + len(vpDec(total)) + 1
	n := total - hdr
	if len(vpDec(n)) != len(vpDec(total)) {
		n = total - (len("blob ") + len(vpDec(n)) + 1)
	}
	data := make([]byte, n)
	for i := range data {
		data[i] = byte(i)
	}
	data[0] = zzvp.Bytes("first", 1, "")[0]
	data[n-1] = zzvp.Bytes("last", 1, "")[0]
	o, err := NewObject(BlobObject, data)
	zzvp.Assert(err == nil && o.Write(g) == nil, "storing a large object succeeds")
	back, err := GetObject(g, o.Hash)
	zzvp.Assert(err == nil && back != nil && back.Type == BlobObject && back.Size == n && string(back.Data) == string(data), "a stored object comes back with the same kind and exactly the same bytes")
	zzvp.Done()
}
