package object

import (
	"github.com/JunNishimura/Goit/internal/sha"
	"github.com/JunNishimura/Goit/internal/zzvp"
)

func vpMutate(valid []byte) []byte {
	p := zzvp.Choose(len(valid))
	out := append([]byte{}, valid...)
	switch zzvp.Choose(3) {
	case 0:
		out[p] = zzvp.Bytes("subst", 1, "")[0]
	case 1:
		out = append(out[:p], out[p+1:]...)
	default:
		out = out[:p]
	}
	return out
}

// VP_C19_MutatedObjects: single-byte substitutions, deletions and truncations of the PLAINTEXT of valid objects (blob, tree,
// commit) stored under the id of the intact object: never returned as the requested content, never a crash in the decoders.
func VP_C19_MutatedObjects() {
	g := vpGoit()
	var plain []byte
	var t Type
	switch zzvp.Choose(3) {
	case 0:
		t, plain = BlobObject, []byte("blob 5\x00hello")
	case 1:
		body := append([]byte("100644 a\x00"), vpFixedID...)
		t, plain = TreeObject, append([]byte("tree 29\x00"), body...)
	default:
		body := "tree 0123456789012345678901234567890123456789\nauthor A <a@b.cd> 1 +0000\ncommitter A <a@b.cd> 1 +0000\n\nm\n"
		t, plain = CommitObject, append([]byte("commit "+vpDec(len(body))+"\x00"), body...)
	}
	id := zzvp.Sha1(plain)
	damaged := vpMutate(plain)
	zzvp.WriteZ(vpObjPath(g, id), damaged)
	obj, err := GetObject(g, sha.SHA1(id))
	zzvp.Assert(err != nil || string(damaged) == string(plain), "a damaged object is never returned as if it were the requested content")
	if err == nil {
		_ = t
		if obj.Type == TreeObject {
			if tr, err := NewTree(g, obj); err == nil {
				_ = tr.String()
			}
		}
		if obj.Type == CommitObject {
			if c, err := NewCommit(obj); err == nil {
				_ = c.String()
			}
		}
	}
	// the decoders themselves on the damaged payload (an attacker may also fix the id up)
	if len(damaged) > 8 {
		if tr, err := NewTree(g, &Object{Type: TreeObject, Data: damaged[8:]}); err == nil {
			zzvp.Assert(vpTreeFaithful(damaged[8:], tr.Children), "a damaged tree payload that is still accepted is decoded faithfully (no invented or padded id)")
		}
		_, _ = NewCommit(&Object{Type: CommitObject, Data: damaged[8:], Hash: sha.SHA1(vpFixedID)})
	}
	zzvp.Done()
}
