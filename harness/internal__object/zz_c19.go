package object

import (
	"bytes"

	"github.com/JunNishimura/Goit/internal/sha"
	"github.com/JunNishimura/Goit/internal/zzvp"
)

var vpFixedID = []byte{0xab, 0xcd, 0xef, 0x01, 0x23, 0x45, 0x67, 0x89, 0x20, 0x0a, 0, 1, 2, 3, 4, 5, 6, 7, 8, 9}

// VP_C19_ReadHeader: any bytes: value or error, never a crash.
func VP_C19_ReadHeader() {
	b := zzvp.Bytes("b", zzvp.Choose(zzvp.Param("n", 8)+1), "")
	t, size, err := readHeader(bytes.NewReader(b))
	if err == nil {
		zzvp.Assert(t != UndefinedObject && size >= 0 || size < 0, "a header that is accepted names a defined kind")
	}
	zzvp.Done()
}

// VP_C19_GetObject: whatever plaintext an object file inflates to, GetObject returns an error or the object that was asked for.
func VP_C19_GetObject() {
	g := vpGoit()
	var plain []byte
	switch zzvp.Choose(3) {
	case 0:
		plain = zzvp.Bytes("plain", zzvp.Choose(zzvp.Param("n", 8)+1), "")
	case 1:
		// a header-shaped prefix followed by free bytes (truncated / extended / wrong size payloads)
		plain = append([]byte("blob "), zzvp.Bytes("tail", 1+zzvp.Choose(zzvp.Param("n", 8)), "")...)
	default:
		plain = append([]byte("tree 2\x00"), zzvp.Bytes("tail2", zzvp.Choose(5), "")...)
	}
	zzvp.WriteZ(vpObjPath(g, vpFixedID), plain)
	obj, err := GetObject(g, sha.SHA1(vpFixedID))
	zzvp.Assert(err != nil || (obj != nil && string(obj.Hash) == string(vpFixedID)), "an object stored under another id is never returned as the requested content")
	zzvp.Done()
}

// VP_C19_ValidUnderName: control for the previous harness: the well-formed object stored under its own id is returned.
func VP_C19_ValidUnderName() {
	g := vpGoit()
	data := zzvp.Bytes("data", zzvp.Choose(zzvp.Param("n", 6)+1), "")
	plain := append([]byte("blob "+vpDec(len(data))+"\x00"), data...)
	id := zzvp.Sha1(plain)
	zzvp.WriteZ(vpObjPath(g, id), plain)
	obj, err := GetObject(g, sha.SHA1(id))
	zzvp.Assert(err == nil && obj != nil && string(obj.Data) == string(data) && string(obj.Hash) == string(id), "an intact object under its own id is returned")
	zzvp.Done()
}

// VP_C19_RawObject: an object file that is not a zlib stream Goit wrote (truncated, bit-flipped): error or the requested object.
func VP_C19_RawObject() {
	g := vpGoit()
	zzvp.WriteRaw(vpObjPath(g, vpFixedID), zzvp.Bytes("raw", zzvp.Choose(4), ""))
	obj, err := GetObject(g, sha.SHA1(vpFixedID))
	zzvp.Assert(err != nil || (obj != nil && string(obj.Hash) == string(vpFixedID)), "a damaged object file is never returned as the requested content")
	zzvp.Done()
}

// VP_C19_WalkTree: any tree payload: value or error.
func VP_C19_WalkTree() {
	g := vpGoit()
	var data []byte
	switch zzvp.Choose(3) {
	case 0:
		data = zzvp.Bytes("d", zzvp.Choose(zzvp.Param("n", 8)+1), "")
	case 1:
		// one well-formed entry followed by free bytes
		data = append(append([]byte("100644 a\x00"), vpFixedID...), zzvp.Bytes("t", zzvp.Choose(zzvp.Param("n", 8)+1), "")...)
	default:
		// free mode/name text, NUL, 20 free id bytes, then free bytes
		data = append(zzvp.Bytes("m", 1+zzvp.Choose(4), ""), 0)
		data = append(data, zzvp.Bytes("id", 20, "")...)
		data = append(data, zzvp.Bytes("u", zzvp.Choose(4), "")...)
	}
	tree, err := NewTree(g, &Object{Type: TreeObject, Size: len(data), Data: data})
	if err == nil {
		_ = tree.String()
		zzvp.Assert(vpTreeFaithful(data, tree.Children), "a tree payload that is accepted is decoded faithfully: every entry's name and 20-byte id are the bytes of the payload")
	}
	zzvp.Done()
}

// vpTreeFaithful: reference decoding of a tree payload ("<mode> <name>" NUL <20-byte id>, repeated), written independently
// of walkTree: the entries Goit returned must be the leading entries of the payload (names after the first blank, ids byte for byte).
func vpTreeFaithful(data []byte, children []*Node) bool {
	pos, k := 0, 0
	for k < len(children) { // bytes after the last returned entry are not judged
		j := pos
		for j < len(data) && data[j] != 0 {
			j++
		}
		if j >= len(data) || j+21 > len(data) {
			return false // no NUL, or fewer than 20 id bytes: not a complete entry
		}
		head := string(data[pos:j])
		sp := 0
		for sp < len(head) && head[sp] != ' ' {
			sp++
		}
		if sp >= len(head) {
			return false
		}
		if children[k].Name != head[sp+1:] || string(children[k].Hash) != string(data[j+1:j+21]) {
			return false
		}
		pos = j + 21
		k++
	}
	return true
}

// VP_C19_NewCommit: any commit payload: value or error.
func VP_C19_NewCommit() {
	var data []byte
	pre := []string{"", "tree ", "parent ", "author ", "committer ", "tree 0123456789012345678901234567890123456789\nauthor "}[zzvp.Choose(6)]
	data = append([]byte(pre), zzvp.Bytes("d", zzvp.Choose(zzvp.Param("n", 6)+1), "")...)
	c, err := NewCommit(&Object{Type: CommitObject, Size: len(data), Data: data, Hash: sha.SHA1(vpFixedID)})
	if err == nil {
		zzvp.Assert(c != nil, "a commit that is accepted is returned")
	}
	zzvp.Done()
}

// VP_C19_ReadSign: any sign text: value or error.
func VP_C19_ReadSign() {
	var s string
	switch zzvp.Choose(2) {
	case 0:
		s = zzvp.Str("s", zzvp.Choose(zzvp.Param("n", 8)+1), "")
	default:
		// near-valid: fixed identity, free time-stamp/offset text
		s = "a <a@b.cd> " + zzvp.Str("t", 1+zzvp.Choose(zzvp.Param("n", 8)), "")
	}
	sg, err := readSign(s)
	if err == nil {
		_ = sg.String()
	}
	zzvp.Done()
}

// VP_C19_LongCommit: a well-formed commit whose message has one very long line (beyond the 64 KiB and 96 KiB marks):
// the decoder returns the whole message or an error, never a message cut short.
func VP_C19_LongCommit() {
	n := []int{4200, 70000, 100000, 131000}[zzvp.Choose(4)]
	long := make([]byte, n)
	for i := range long {
		long[i] = 'z'
	}
	long[0] = zzvp.Bytes("lb", 1, "a-z")[0]
	msg := "subject\n" + string(long) + "\nlast line"
	data := []byte("tree 0123456789012345678901234567890123456789\nauthor A <a@b.cd> 1 +0000\ncommitter A <a@b.cd> 1 +0000\n\n" + msg + "\n")
	c, err := NewCommit(&Object{Type: CommitObject, Size: len(data), Data: data, Hash: sha.SHA1(vpFixedID)})
	zzvp.Assert(err != nil || (c != nil && c.Message == msg), "a commit that is accepted is decoded faithfully: its message is the whole text after the blank line")
	zzvp.Done()
}
