// Package zzvp is the harness API. This file is the SYMBOLIC side: body-less declarations that the
// goitsym executor intercepts by name. The native side (../zzvp_native) implements the same API for replays.
package zzvp

import "time"

type Result struct {
	Exit  int    // 0, 1; 2 = Go run-time panic; 137 = killed at the crash point
	Out   string // captured standard output
	Panic string
}

func Bytes(name string, n int, alphabet string) []byte
func Str(name string, n int, alphabet string) string
func Int(name string, lo, hi int) int
func Bool(name string) bool
func Choose(n int) int
func Param(name string, def int) int
func Assume(c bool)
func Assert(c bool, msg string)
func Note(s string)
func Known(id string) bool
func Done()
func Root() string
func Home() string
func MapOrderNondet()

func Capture(f func()) string
func Run(argv ...string) Result
func SetIntFlag(name string, v int)
func SetClock(unixDigits string, offsetSec int)
func ClockControlled() bool // true in the model (instant = the given digits); false natively (real clock, only the zone is set)
func Time(unixDigits string, offsetSec int) time.Time
func CrashAt(k int)
func FaultAt(k int)
func NoCrash()
func NoFault()
func Mutations() int
func Ops() int
func Faulted() bool
func Crashed() bool
func Sha1(data []byte) []byte

func WriteFile(path string, data []byte)
func WriteZ(path string, payload []byte)
func WriteRaw(path string, data []byte)
func ReadFile(path string) ([]byte, bool)
func ReadZ(path string) ([]byte, bool)
func Exists(path string) bool
func IsDir(path string) bool
func MkdirAll(path string)
func RemoveAll(path string)
func List(dir string) []string
func Checkpoint() int
func Restore(id int)
func Snapshot(root string) int
func SnapEq(a, b int, except ...string) bool
