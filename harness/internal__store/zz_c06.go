package store

import (
	"github.com/JunNishimura/Goit/internal/sha"
	"github.com/JunNishimura/Goit/internal/zzvp"
)

// name alphabets: first byte excludes '.', '-' (no dot-files, no flag look-alikes); '/' and '\' never occur inside a component
const vpFirst = "a-z0-9 (+_%"
const vpRest = "a-z0-9 (+_%.-"

// vpPath builds a path of 1..depth components, each of 1..maxc symbolic bytes.
func vpPath(name string, depth, maxc int) string {
	d := 1 + zzvp.Choose(depth)
	p := ""
	for i := 0; i < d; i++ {
		n := 1 + zzvp.Choose(maxc)
		c := zzvp.Str(name+"_"+string(rune('a'+i))+"0", 1, vpFirst)
		if n > 1 {
			c += zzvp.Str(name+"_"+string(rune('a'+i))+"1", n-1, vpRest)
		}
		if i > 0 {
			p += "/"
		}
		p += c
	}
	return p
}

// vpIndex builds an arbitrary index satisfying INV_index: strictly ascending paths (hence no duplicates),
// EntryNum == len(Entries), NameLength == len(Path).
func vpIndex(n, depth, maxc int) *Index {
	idx := newIndex()
	for i := 0; i < n; i++ {
		p := vpPath("p"+string(rune('0'+i)), depth, maxc)
		h := zzvp.Bytes("h"+string(rune('0'+i)), 20, "")
		if i > 0 {
			zzvp.Assume(string(idx.Entries[i-1].Path) < p)
		}
		idx.Entries = append(idx.Entries, NewEntry(sha.SHA1(h), []byte(p)))
	}
	idx.EntryNum = uint32(n)
	return idx
}

// vpHasDirPrefix: s starts with d + "/"
func vpHasDirPrefix(s, d string) bool {
	if len(s) <= len(d) {
		return false
	}
	return s[:len(d)] == d && s[len(d)] == '/'
}

// VP_C06_GetEntry: GetEntry(q) finds q iff a linear scan finds it, at the same position.
func VP_C06_GetEntry() {
	n := zzvp.Choose(zzvp.Param("entries", 4) + 1)
	idx := vpIndex(n, zzvp.Param("depth", 2), zzvp.Param("complen", 2))
	q := vpPath("q", zzvp.Param("depth", 2), zzvp.Param("complen", 2))
	pos, e, found := idx.GetEntry([]byte(q))
	want := -1
	for i, en := range idx.Entries {
		if string(en.Path) == q {
			want = i
		}
	}
	zzvp.Assert(found == (want >= 0), "GetEntry finds a path iff it is tracked")
	if found {
		zzvp.Assert(pos == want && e == idx.Entries[want], "GetEntry returns the position and entry of the tracked path")
	}
	zzvp.Done()
}

// VP_C06_IsDir: IsRegisteredAsDirectory(d) iff some tracked path lies beneath d + "/".
func VP_C06_IsDir() {
	n := zzvp.Choose(zzvp.Param("entries", 4) + 1)
	idx := vpIndex(n, zzvp.Param("depth", 2), zzvp.Param("complen", 2))
	d := vpPath("q", 1, zzvp.Param("complen", 2))
	got := idx.IsRegisteredAsDirectory(d)
	want := false
	for _, en := range idx.Entries {
		if vpHasDirPrefix(string(en.Path), d) {
			want = true
		}
	}
	zzvp.Assert(got == want, "a name is a tracked directory iff some tracked path lies beneath <name>/")
	zzvp.Done()
}

// VP_C06_ByDir: GetEntriesByDirectory(d) selects exactly the tracked paths beneath d/, in order.
func VP_C06_ByDir() {
	n := zzvp.Choose(zzvp.Param("entries", 4) + 1)
	idx := vpIndex(n, zzvp.Param("depth", 2), zzvp.Param("complen", 2))
	d := vpPath("q", 1, zzvp.Param("complen", 2))
	got := idx.GetEntriesByDirectory(d)
	var want []*Entry
	for _, en := range idx.Entries {
		if vpHasDirPrefix(string(en.Path), d) {
			want = append(want, en)
		}
	}
	ok := len(got) == len(want)
	if ok {
		for i := range got {
			if got[i] != want[i] {
				ok = false
			}
		}
	}
	zzvp.Assert(ok, "a directory operation selects exactly the tracked paths beneath <dir>/")
	zzvp.Done()
}

func vpSorted(idx *Index) bool {
	ok := int(idx.EntryNum) == len(idx.Entries)
	for i, e := range idx.Entries {
		if int(e.NameLength) != len(e.Path) || len(e.Hash) != 20 {
			ok = false
		}
		if i > 0 && !(string(idx.Entries[i-1].Path) < string(e.Path)) {
			ok = false
		}
	}
	return ok
}

func vpGoitDir() string {
	g := zzvp.Root() + "/.goit"
	zzvp.MkdirAll(g)
	return g
}

// vpEncode is the specification of the on-disk format, written independently of Index.write.
func vpEncode(entries []*Entry) []byte {
	n := len(entries)
	out := []byte{'D', 'I', 'R', 'C', 0, 0, 0, 1, byte(n >> 24), byte(n >> 16), byte(n >> 8), byte(n)}
	for _, e := range entries {
		out = append(out, e.Hash...)
		out = append(out, byte(len(e.Path)>>8), byte(len(e.Path)))
		out = append(out, e.Path...)
	}
	return out
}

func vpSameEntries(a, b []*Entry) bool {
	if len(a) != len(b) {
		return false
	}
	ok := true
	for i := range a {
		if string(a[i].Path) != string(b[i].Path) || string(a[i].Hash) != string(b[i].Hash) || a[i].NameLength != b[i].NameLength {
			ok = false
		}
	}
	return ok
}

// VP_C06_WriteRead: the file written for an arbitrary canonical index has exactly the specified bytes and decodes to the same entries.
func VP_C06_WriteRead() {
	n := zzvp.Choose(zzvp.Param("entries", 3) + 1)
	idx := vpIndex(n, zzvp.Param("depth", 2), zzvp.Param("complen", 2))
	g := vpGoitDir()
	err := idx.write(g)
	zzvp.Assert(err == nil, "writing the staging area succeeds")
	b, ok := zzvp.ReadFile(g + "/index")
	zzvp.Assert(ok && string(b) == string(vpEncode(idx.Entries)), "on-disk staging area = DIRC, version, count, then (id, be16 length, path) per entry")
	back, err := NewIndex(g)
	zzvp.Assert(err == nil, "a staging area written by Goit loads")
	if err == nil {
		zzvp.Assert(int(back.EntryNum) == n && vpSameEntries(back.Entries, idx.Entries), "the staging area decodes to exactly the entries last written")
	}
	zzvp.Done()
}

// VP_C06_Update: one Update step from an arbitrary canonical state keeps the state canonical and changes exactly one entry.
func VP_C06_Update() {
	n := zzvp.Choose(zzvp.Param("entries", 3) + 1)
	idx := vpIndex(n, zzvp.Param("depth", 2), zzvp.Param("complen", 2))
	old := append([]*Entry{}, idx.Entries...)
	p := vpPath("q", zzvp.Param("depth", 2), zzvp.Param("complen", 2))
	h := zzvp.Bytes("qh", 20, "")
	g := vpGoitDir()
	was := -1
	for i, e := range old {
		if string(e.Path) == p {
			was = i
		}
	}
	changed, err := idx.Update(g, sha.SHA1(h), []byte(p))
	zzvp.Assert(err == nil, "Update succeeds")
	zzvp.Assert(vpSorted(idx), "after Update the entries are strictly ascending, duplicate-free and counted")
	// specified content: the named path gets the new id; an entry that the new path replaces in kind (a tracked file
	// that is a directory of the new path, or tracked paths beneath the new path) is dropped; every other entry stays
	// (re-adding an entry that is already there with the same id changes nothing at all)
	same := was >= 0 && string(old[was].Hash) == string(h)
	replaced := func(o *Entry) bool {
		return !same && (vpHasDirPrefix(string(o.Path), p) || vpHasDirPrefix(p, string(o.Path)))
	}
	wantLen := 1
	for _, o := range old {
		if string(o.Path) != p && !replaced(o) {
			wantLen++
		}
	}
	ok := len(idx.Entries) == wantLen
	found := false
	for _, e := range idx.Entries {
		if string(e.Path) == p {
			found = string(e.Hash) == string(h)
		}
	}
	for _, o := range old {
		if string(o.Path) == p || replaced(o) {
			continue
		}
		kept := false
		for _, e := range idx.Entries {
			if string(e.Path) == string(o.Path) && string(e.Hash) == string(o.Hash) {
				kept = true
			}
		}
		if !kept {
			ok = false
		}
	}
	zzvp.Assert(ok && found, "Update maps the named path to the new id, drops the entries it replaces in kind and leaves every other entry unchanged")
	if was >= 0 && string(old[was].Hash) == string(h) {
		zzvp.Assert(!changed, "re-adding an unchanged entry reports no change")
	} else {
		zzvp.Assert(changed, "a new or modified entry is reported as changed")
		b, rok := zzvp.ReadFile(g + "/index")
		zzvp.Assert(rok && string(b) == string(vpEncode(idx.Entries)), "the file written by Update encodes exactly the new entries")
	}
	zzvp.Done()
}

// VP_C06_Delete: one DeleteEntry step.
func VP_C06_Delete() {
	n := zzvp.Choose(zzvp.Param("entries", 3) + 1)
	idx := vpIndex(n, zzvp.Param("depth", 2), zzvp.Param("complen", 2))
	old := append([]*Entry{}, idx.Entries...)
	p := vpPath("q", zzvp.Param("depth", 2), zzvp.Param("complen", 2))
	g := vpGoitDir()
	was := -1
	for i, e := range old {
		if string(e.Path) == p {
			was = i
		}
	}
	err := idx.DeleteEntry(g, []byte(p))
	if was < 0 {
		zzvp.Assert(err != nil && vpSameEntries(idx.Entries, old) && !zzvp.Exists(g+"/index"), "deleting an untracked path is refused and changes nothing")
	} else {
		zzvp.Assert(err == nil, "deleting a tracked path succeeds")
		want := append(append([]*Entry{}, old[:was]...), old[was+1:]...)
		zzvp.Assert(vpSorted(idx) && vpSameEntries(idx.Entries, want), "DeleteEntry removes exactly the named entry and keeps the order")
		b, rok := zzvp.ReadFile(g + "/index")
		zzvp.Assert(rok && string(b) == string(vpEncode(want)), "the file written by DeleteEntry encodes exactly the remaining entries")
	}
	zzvp.Done()
}


func vpBigEntry(i int) ([]byte, []byte) {
	name := []byte{'f', byte('0' + i/100), byte('0' + i/10%10), byte('0' + i%10), '.', 't', 'x', 't'}
	id := make([]byte, 20)
	for k := range id {
		id[k] = byte(i + k)
	}
	return name, id
}

// VP_C06_Big: a staging area larger than the I/O buffer sizes of the standard library (4 KiB, 32 KiB, 64 KiB): many
// entries with fixed names around one entry with a free name and id; written, read back, compared entry by entry.
func VP_C06_Big() {
	n := zzvp.Param("bigentries", 170)
	idx := newIndex()
	free := zzvp.Choose(3) // position class of the free entry: first, middle, last
	for i := 0; i < n; i++ {
		name, id := vpBigEntry(i)
		if (free == 0 && i == 0) || (free == 1 && i == n/2) || (free == 2 && i == n-1) {
			// same sort position, free last byte of the name and free id; optionally a name longer than 255 bytes
			// (the name-length field has two bytes)
			if zzvp.Choose(2) == 1 {
				for k := 0; k < zzvp.Param("longname", 300); k++ {
					name = append(name, 'y')
				}
			}
			name[len(name)-1] = zzvp.Bytes("nb", 1, "a-z")[0]
			id = zzvp.Bytes("bid", 20, "")
		}
		idx.Entries = append(idx.Entries, NewEntry(sha.SHA1(id), name))
	}
	idx.EntryNum = uint32(n)
	g := vpGoitDir()
	zzvp.Assert(idx.write(g) == nil, "writing a large staging area succeeds")
	b, ok := zzvp.ReadFile(g + "/index")
	zzvp.Assert(ok && len(b) > 4096 && string(b) == string(vpEncode(idx.Entries)), "the large staging area has exactly the specified bytes")
	back, err := NewIndex(g)
	zzvp.Assert(err == nil, "a large staging area written by Goit loads")
	if err == nil {
		zzvp.Assert(int(back.EntryNum) == n && vpSameEntries(back.Entries, idx.Entries), "the large staging area decodes to exactly the entries last written")
		_, e, found := back.GetEntry(idx.Entries[n-1].Path)
		zzvp.Assert(found && string(e.Hash) == string(idx.Entries[n-1].Hash), "the last tracked path of a large staging area is addressable")
	}
	zzvp.Done()
}
