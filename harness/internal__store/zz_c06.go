package store

import (
	"github.com/JunNishimura/Goit/internal/sha"
	"github.com/JunNishimura/Goit/internal/zzvp"
)

// name alphabets: first byte excludes '.', '-' (no dot-files, no flag look-alikes); '/' and '\' never occur inside a component
const vpFirst = "a-z0-9 (+_"
const vpRest = "a-z0-9 (+_.-"

// vpPath builds a path of 1..depth components, each of 1..maxc symbolic bytes.
func vpPath(name string, depth, maxc int) string {
	d := 1 + zzvp.Choose(depth)
	p := ""
	for i := 0; i < d; i++ {
		n := 1 + zzvp.Choose(maxc)
		c := zzvp.Str(name+"_"+string(rune('a'+i))+"0", 1, vpFirst)
		if n > 1 {
			c += zzvp.Str(name+"_"+string(rune('a'+i))+"1", n-1, vpRest)
		}
		if i > 0 {
			p += "/"
		}
		p += c
	}
	return p
}

// vpIndex builds an arbitrary index satisfying INV_index: strictly ascending paths, no entry is a
// directory prefix of another, EntryNum == len(Entries), NameLength == len(Path).
func vpIndex(n, depth, maxc int) *Index {
	idx := newIndex()
	for i := 0; i < n; i++ {
		p := vpPath("p"+string(rune('0'+i)), depth, maxc)
		h := zzvp.Bytes("h"+string(rune('0'+i)), 20, "")
		if i > 0 {
			zzvp.Assume(string(idx.Entries[i-1].Path) < p)
		}
		for j := 0; j < i; j++ {
			q := string(idx.Entries[j].Path)
			zzvp.Assume(!vpHasDirPrefix(p, q) && !vpHasDirPrefix(q, p))
		}
		idx.Entries = append(idx.Entries, NewEntry(sha.SHA1(h), []byte(p)))
	}
	idx.EntryNum = uint32(n)
	return idx
}

// vpHasDirPrefix: s starts with d + "/"
func vpHasDirPrefix(s, d string) bool {
	if len(s) <= len(d) {
		return false
	}
	return s[:len(d)] == d && s[len(d)] == '/'
}

// VP_C06_GetEntry: GetEntry(q) finds q iff a linear scan finds it, at the same position.
func VP_C06_GetEntry() {
	n := zzvp.Choose(zzvp.Param("entries", 4) + 1)
	idx := vpIndex(n, zzvp.Param("depth", 2), zzvp.Param("complen", 2))
	q := vpPath("q", zzvp.Param("depth", 2), zzvp.Param("complen", 2))
	pos, e, found := idx.GetEntry([]byte(q))
	want := -1
	for i, en := range idx.Entries {
		if string(en.Path) == q {
			want = i
		}
	}
	zzvp.Assert(found == (want >= 0), "GetEntry finds a path iff it is tracked")
	if found {
		zzvp.Assert(pos == want && e == idx.Entries[want], "GetEntry returns the position and entry of the tracked path")
	}
	zzvp.Done()
}

// VP_C06_IsDir: IsRegisteredAsDirectory(d) iff some tracked path lies beneath d + "/".
func VP_C06_IsDir() {
	n := zzvp.Choose(zzvp.Param("entries", 4) + 1)
	idx := vpIndex(n, zzvp.Param("depth", 2), zzvp.Param("complen", 2))
	d := vpPath("q", 1, zzvp.Param("complen", 2))
	got := idx.IsRegisteredAsDirectory(d)
	want := false
	for _, en := range idx.Entries {
		if vpHasDirPrefix(string(en.Path), d) {
			want = true
		}
	}
	zzvp.Assert(got == want, "a name is a tracked directory iff some tracked path lies beneath <name>/")
	zzvp.Done()
}

// VP_C06_ByDir: GetEntriesByDirectory(d) selects exactly the tracked paths beneath d/, in order.
func VP_C06_ByDir() {
	n := zzvp.Choose(zzvp.Param("entries", 4) + 1)
	idx := vpIndex(n, zzvp.Param("depth", 2), zzvp.Param("complen", 2))
	d := vpPath("q", 1, zzvp.Param("complen", 2))
	got := idx.GetEntriesByDirectory(d)
	var want []*Entry
	for _, en := range idx.Entries {
		if vpHasDirPrefix(string(en.Path), d) {
			want = append(want, en)
		}
	}
	ok := len(got) == len(want)
	if ok {
		for i := range got {
			if got[i] != want[i] {
				ok = false
			}
		}
	}
	zzvp.Assert(ok, "a directory operation selects exactly the tracked paths beneath <dir>/")
	zzvp.Done()
}

var vpHarnesses = map[string]func(){
	"VP_C06_GetEntry": VP_C06_GetEntry,
	"VP_C06_IsDir":    VP_C06_IsDir,
	"VP_C06_ByDir":    VP_C06_ByDir,
}
