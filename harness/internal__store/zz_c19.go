package store

import (
	"github.com/JunNishimura/Goit/internal/object"
	"github.com/JunNishimura/Goit/internal/sha"
	"github.com/JunNishimura/Goit/internal/zzvp"
)

// VP_C19_IndexRead: any staging-area file: loads or reports an error; never crashes, never allocates beyond a 16-bit length.
func VP_C19_IndexRead() {
	g := vpGoitDir()
	var b []byte
	switch zzvp.Choose(3) {
	case 0:
		b = zzvp.Bytes("b", zzvp.Choose(zzvp.Param("n", 14)+1), "")
	case 1:
		// valid signature/version, free count, then free bytes
		b = append([]byte("DIRC\x00\x00\x00\x01"), zzvp.Bytes("cnt", 4, "")...)
		b = append(b, zzvp.Bytes("t", zzvp.Choose(zzvp.Param("n", 14)+1), "")...)
	default:
		// one entry with free id and free length field, then free bytes
		b = append([]byte("DIRC\x00\x00\x00\x01\x00\x00\x00\x01"), zzvp.Bytes("id", 20, "")...)
		b = append(b, zzvp.Bytes("len", 2, "")...)
		b = append(b, zzvp.Bytes("t2", zzvp.Choose(4), "")...)
	}
	zzvp.WriteFile(g+"/index", b)
	idx, err := NewIndex(g)
	if err == nil {
		zzvp.Assert(int(idx.EntryNum) == len(idx.Entries), "a staging area that loads has as many entries as its header says")
		zzvp.Assert(vpFaithful(b, idx), "a staging-area file that loads is decoded faithfully: its entries, re-encoded, are the bytes of the file after the header")
	}
	zzvp.Done()
}

// vpFaithful: the loaded entries are exactly what the file holds (count field, then id, length and name of each entry in
// order); bytes after the last entry are not judged.
func vpFaithful(file []byte, idx *Index) bool {
	if len(file) < 12 {
		return false
	}
	n := int(file[8])<<24 | int(file[9])<<16 | int(file[10])<<8 | int(file[11])
	if n != len(idx.Entries) {
		return false
	}
	enc := vpEncode(idx.Entries)[12:]
	if len(file) < 12+len(enc) {
		return false
	}
	return string(file[12:12+len(enc)]) == string(enc)
}

const vpCfgAlpha = "\t\n -~"

// VP_C19_ConfigLoad: any config file text: loads or reports an error.
func VP_C19_ConfigLoad() {
	g := vpGoitDir()
	var b []byte
	switch zzvp.Choose(2) {
	case 0:
		b = zzvp.Bytes("b", zzvp.Choose(zzvp.Param("n", 6)+1), vpCfgAlpha)
	default:
		b = append([]byte("[user]\n"), zzvp.Bytes("t", zzvp.Choose(zzvp.Param("n", 6)+1), vpCfgAlpha)...)
	}
	zzvp.WriteFile(g+"/config", b)
	c, err := NewConfig(g)
	if err == nil {
		_ = c.IsUserSet()
		_ = c.GetUserName()
	}
	zzvp.Done()
}

// VP_C19_NewHead: any HEAD content.
func VP_C19_NewHead() {
	g := vpGoitDir()
	zzvp.MkdirAll(g + "/refs/heads")
	var b []byte
	switch zzvp.Choose(2) {
	case 0:
		b = zzvp.Bytes("b", zzvp.Choose(zzvp.Param("n", 8)+1), "")
	default:
		b = append([]byte("ref: refs/heads/"), zzvp.Bytes("t", zzvp.Choose(zzvp.Param("n", 6)+1), "")...)
	}
	zzvp.WriteFile(g+"/HEAD", b)
	h, err := NewHead(g)
	if err == nil {
		zzvp.Assert(h != nil, "a HEAD that loads is returned")
	}
	zzvp.Done()
}

// VP_C19_RefsLoad: any branch-file content.
func VP_C19_RefsLoad() {
	g := vpGoitDir()
	var b []byte
	switch zzvp.Choose(2) {
	case 0:
		b = zzvp.Bytes("b", zzvp.Choose(zzvp.Param("n", 8)+1), "")
	default:
		// 39/40/41/42 characters over hex digits and a few others
		b = zzvp.Bytes("h", 38+zzvp.Choose(5), "0-9a-fg\n")
	}
	zzvp.WriteFile(g+"/refs/heads/main", b)
	r, err := NewRefs(g)
	if err == nil {
		zzvp.Assert(len(r.Heads) == 1 && r.Heads[0].Name == "main", "a branch file that loads yields that branch")
	}
	zzvp.Done()
}

// VP_C19_ReflogLoad: any reflog text, in a repository that has a HEAD commit.
func VP_C19_ReflogLoad() {
	g := vpGoitDir()
	id := sha.SHA1([]byte{1, 2, 3, 4, 5, 6, 7, 8, 9, 10, 11, 12, 13, 14, 15, 16, 17, 18, 19, 20})
	head := &Head{Reference: "main", Commit: &object.Commit{Object: &object.Object{Hash: id}}}
	refs := newRefs()
	refs.Heads = append(refs.Heads, newBranch("main", id))
	var b []byte
	zero := "0000000000000000000000000000000000000000"
	switch zzvp.Choose(3) {
	case 0:
		b = zzvp.Bytes("b", zzvp.Choose(zzvp.Param("n", 8)+1), "")
	case 1:
		b = append([]byte(zero+" "+id.String()+" "), zzvp.Bytes("t", zzvp.Choose(zzvp.Param("n", 8)+1), vpCfgAlpha)...)
	default:
		b = append([]byte(id.String()+" "+zero+" a <a@b.cd> 1 +0000\t"), zzvp.Bytes("k", zzvp.Choose(zzvp.Param("n", 8)+1), vpCfgAlpha)...)
	}
	zzvp.WriteFile(g+"/logs/HEAD", b)
	rl, err := NewReflog(g, head, refs)
	if err == nil {
		zzvp.Capture(func() { rl.Show() })
		_, _ = rl.GetRecord(0)
	}
	zzvp.Done()
}
