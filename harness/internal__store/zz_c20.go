package store

import (
	"github.com/JunNishimura/Goit/internal/zzvp"
)

const vpValNoSp = "!-~"
const vpValAny = " -~"

// vpValue: printable characters with inner single spaces, 1..maxLen bytes
func vpValue(name string, maxLen int) string {
	n := 1 + zzvp.Choose(maxLen)
	if n == 1 {
		return zzvp.Str(name+"a", 1, vpValNoSp)
	}
	v := zzvp.Str(name+"a", 1, vpValNoSp)
	if n > 2 {
		mid := zzvp.Str(name+"m", n-2, vpValAny)
		for i := 0; i+1 < len(mid); i++ {
			zzvp.Assume(!(mid[i] == ' ' && mid[i+1] == ' '))
		}
		v += mid
	}
	return v + zzvp.Str(name+"z", 1, vpValNoSp)
}

func vpWord(name string, maxLen int) string {
	return zzvp.Str(name, 1+zzvp.Choose(maxLen), "a-z")
}

type vpKV struct{ sec, key, val string }

// VP_C20_WriteLoad: what Config.Write stores is what the next process loads, for every value and every map iteration order.
func VP_C20_WriteLoad() {
	zzvp.MapOrderNondet()
	g := vpGoitDir()
	c := newConfig()
	n := 1 + zzvp.Choose(zzvp.Param("pairs", 3))
	var want []vpKV
	for i := 0; i < n; i++ {
		id := string(rune('0' + i))
		sec := vpWord("sec"+id, zzvp.Param("wordlen", 2))
		key := vpWord("key"+id, zzvp.Param("wordlen", 2))
		val := vpValue("val"+id, zzvp.Param("vallen", 4))
		c.Add(sec, key, val, false)
		// specification: later writes of the same (section, key) win
		var w2 []vpKV
		for _, w := range want {
			if !(w.sec == sec && w.key == key) {
				w2 = append(w2, w)
			}
		}
		want = append(w2, vpKV{sec, key, val})
	}
	zzvp.Assert(c.Write(g+"/config", false) == nil, "writing the config succeeds")
	back, err := NewConfig(g)
	zzvp.Assert(err == nil, "a config written by Goit loads")
	if err != nil {
		return
	}
	ok := true
	total := 0
	for _, kvs := range back.local {
		total += len(kvs)
	}
	if total != len(want) {
		ok = false
	}
	for _, w := range want {
		if back.local[w.sec][w.key] != w.val {
			ok = false
		}
	}
	zzvp.Assert(ok, "every key of every section comes back with exactly the value set; nothing is lost or altered")
	zzvp.Done()
}

// VP_C20_Precedence: local overrides global; global is used when no local value exists; identity required for both name and e-mail.
func VP_C20_Precedence() {
	g := vpGoitDir()
	c := newConfig()
	ln, gn, le, ge := zzvp.Bool("localName"), zzvp.Bool("globalName"), zzvp.Bool("localEmail"), zzvp.Bool("globalEmail")
	lnv, gnv := vpValue("ln", 2), vpValue("gn", 2)
	lev, gev := vpValue("le", 2), vpValue("ge", 2)
	if ln {
		c.Add("user", "name", lnv, false)
	}
	if le {
		c.Add("user", "email", lev, false)
	}
	if gn {
		c.Add("user", "name", gnv, true)
	}
	if ge {
		c.Add("user", "email", gev, true)
	}
	if ln || le {
		zzvp.Assume(c.Write(g+"/config", false) == nil)
	}
	if gn || ge {
		zzvp.Assume(c.Write(zzvp.Home()+"/.goitconfig", true) == nil)
	}
	back, err := NewConfig(g)
	zzvp.Assert(err == nil, "configs written by Goit load")
	if err != nil {
		return
	}
	wantName, wantEmail := "", ""
	if gn {
		wantName = gnv
	}
	if ln {
		wantName = lnv
	}
	if ge {
		wantEmail = gev
	}
	if le {
		wantEmail = lev
	}
	zzvp.Assert(back.GetUserName() == wantName && back.GetEmail() == wantEmail, "a local setting overrides the global one; the global one is used when no local one exists")
	zzvp.Assert(back.IsUserSet() == ((ln || gn) && (le || ge)), "the identity counts as configured iff both a name and an e-mail are available")
	zzvp.Done()
}
