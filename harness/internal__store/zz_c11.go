package store

import (
	"github.com/JunNishimura/Goit/internal/log"
	"github.com/JunNishimura/Goit/internal/object"
	"github.com/JunNishimura/Goit/internal/sha"
	"github.com/JunNishimura/Goit/internal/zzvp"
)

const vpMsgAlpha = "\t\n -~"

func vpID(i int) sha.SHA1 {
	return sha.SHA1([]byte{byte(0x11 * (i + 1)), 0x20, 0x0a, 0x09, 0x3a, 5, 6, 7, 8, 9, 10, 11, 12, 13, 14, 15, 16, 17, 18, byte(i)})
}

func vpFirstLine(s string) string {
	for i := 0; i < len(s); i++ {
		if s[i] == '\n' {
			return s[:i]
		}
	}
	return s
}

// VP_C11_RoundTrip: every journal entry Goit writes reads back: same target commit, same kind of action, in order.
func VP_C11_RoundTrip() {
	g := vpGoitDir()
	lg := log.NewGoitLogger(g)
	r := 1 + zzvp.Choose(zzvp.Param("records", 2))
	type rec struct {
		kind log.RecordType
		to   sha.SHA1
		msg  string
	}
	var want []rec
	offs := []int{0, 19800, -16200}
	// identity as it can come out of the config loader: printable, no '<', no tab, no leading/trailing blank
	name := zzvp.Str("name0", 1, "!-;=-~")
	if nl := zzvp.Choose(zzvp.Param("namelen", 3)); nl > 0 {
		if nl > 1 {
			name += zzvp.Str("name1", nl-1, " -;=-~")
		}
		name += zzvp.Str("name2", 1, "!-;=-~")
	}
	email := zzvp.Str("mail", 1, "a-z:") + "@b.cd"
	for i := 0; i < r; i++ {
		id := string(rune('0' + i))
		kind := []log.RecordType{log.CommitRecord, log.CheckoutRecord, log.ResetRecord, log.BranchRecord}[zzvp.Choose(4)]
		var from, to sha.SHA1
		if zzvp.Choose(2) == 1 {
			from = vpID(2 * i)
		}
		if zzvp.Choose(2) == 1 {
			to = vpID(2*i + 1)
		}
		msg := zzvp.Str("msg"+id, zzvp.Choose(zzvp.Param("msglen", 4)+1), vpMsgAlpha)
		t := zzvp.Time(zzvp.Str("unix"+id, 10, "0-9"), offs[zzvp.Choose(3)])
		zzvp.Assert(lg.WriteHEAD(log.NewRecord(kind, from, to, name, email, t, msg)) == nil, "appending a journal entry succeeds")
		want = append(want, rec{kind, to, msg})
	}
	head := &Head{Reference: "main", Commit: &object.Commit{Object: &object.Object{Hash: vpID(1)}}}
	refs := newRefs()
	refs.Heads = append(refs.Heads, newBranch("main", vpID(1)))
	rl, err := NewReflog(g, head, refs)
	zzvp.Assert(err == nil, "the journal Goit wrote loads, whatever the messages contain")
	if err != nil {
		return
	}
	zzvp.Assert(len(rl.records) == r, "every entry written is read back (none vanishes, none is split)")
	if len(rl.records) == r {
		ok := true
		for i, w := range want {
			got := rl.records[i]
			if got.recType != w.kind || string(got.Hash) != string(w.to) || got.message != vpFirstLine(w.msg) {
				ok = false
			}
		}
		zzvp.Assert(ok, "entries keep their order, target commit, kind of action and (first line of the) message")
		out := zzvp.Capture(func() { rl.Show() })
		zzvp.Assert(len(out) > 0, "reflog prints the journal")
		for n := 0; n < r; n++ {
			got, err := rl.GetRecord(n)
			zzvp.Assert(err == nil && got == rl.records[r-1-n], "position n resolves to the n-th newest entry, the one shown as HEAD@{n}")
		}
		_, err := rl.GetRecord(r)
		zzvp.Assert(err != nil, "a position beyond the journal is refused")
	}
	zzvp.Done()
}
