package store

import (
	"github.com/JunNishimura/Goit/internal/object"
	"github.com/JunNishimura/Goit/internal/sha"
	"github.com/JunNishimura/Goit/internal/zzvp"
)

// vpMutate applies one single-byte substitution (free byte), one deletion or one truncation at a chosen position to a valid file.
func vpMutate(valid []byte) []byte {
	p := zzvp.Choose(len(valid))
	out := append([]byte{}, valid...)
	switch zzvp.Choose(3) {
	case 0:
		out[p] = zzvp.Bytes("subst", 1, "")[0]
	case 1:
		out = append(out[:p], out[p+1:]...)
	default:
		out = out[:p]
	}
	return out
}

// VP_C19_MutatedFiles: every single-byte substitution, deletion and truncation of valid files Goit produced (staging area,
// HEAD, branch file, config, reflog): loads or reports an error, never crashes; what loads is then used by the commands' lookups.
func VP_C19_MutatedFiles() {
	g := vpGoitDir()
	zzvp.MkdirAll(g + "/refs/heads")
	id := sha.SHA1([]byte{1, 2, 3, 4, 5, 6, 7, 8, 9, 10, 11, 12, 13, 14, 15, 16, 17, 18, 19, 20})
	switch zzvp.Choose(5) {
	case 0:
		idx := newIndex()
		idx.Entries = []*Entry{NewEntry(id, []byte("a")), NewEntry(id, []byte("d/b"))}
		idx.EntryNum = 2
		mutated := vpMutate(vpEncode(idx.Entries))
		zzvp.WriteFile(g+"/index", mutated)
		back, err := NewIndex(g)
		if err == nil {
			zzvp.Assert(vpFaithful(mutated, back), "a damaged staging-area file that still loads is decoded faithfully (no invented or padded entry)")
			// the consumers of a loaded staging area
			_, _, _ = back.GetEntry([]byte("d/b"))
			_, _, _ = back.GetEntry([]byte("zz"))
			_ = back.IsRegisteredAsDirectory("d")
			_ = back.GetEntriesByDirectory("d")
		}
	case 1:
		zzvp.WriteFile(g+"/HEAD", vpMutate([]byte("ref: refs/heads/main")))
		_, _ = NewHead(g)
	case 2:
		zzvp.WriteFile(g+"/refs/heads/main", vpMutate([]byte(id.String())))
		r, err := NewRefs(g)
		if err == nil {
			_ = r.IsBranchExist("main")
		}
	case 3:
		zzvp.WriteFile(g+"/config", vpMutate([]byte("[user]\n\tname = A U Thor\n\temail = a@b.cd\n")))
		c, err := NewConfig(g)
		if err == nil {
			_ = c.IsUserSet()
			_ = c.GetUserName()
			_ = c.GetEmail()
		}
	default:
		line := "0000000000000000000000000000000000000000 " + id.String() + " A U Thor <a@b.cd> 1700000000 +0000\tcommit: first\n"
		zzvp.WriteFile(g+"/logs/HEAD", vpMutate([]byte(line)))
		head := &Head{Reference: "main", Commit: &object.Commit{Object: &object.Object{Hash: id}}}
		refs := newRefs()
		refs.Heads = append(refs.Heads, newBranch("main", id))
		rl, err := NewReflog(g, head, refs)
		if err == nil {
			zzvp.Capture(func() { rl.Show() })
			_, _ = rl.GetRecord(0)
		}
	}
	zzvp.Done()
}
