package store

var vpHarnesses = map[string]func(){
	"VP_C06_GetEntry":  VP_C06_GetEntry,
	"VP_C06_IsDir":     VP_C06_IsDir,
	"VP_C06_ByDir":     VP_C06_ByDir,
	"VP_C06_WriteRead": VP_C06_WriteRead,
	"VP_C06_Update":    VP_C06_Update,
	"VP_C06_Delete":    VP_C06_Delete,
	"VP_C10_Pos":       VP_C10_Pos,
	"VP_C10_Add":       VP_C10_Add,
	"VP_C10_Rename":    VP_C10_Rename,
	"VP_C10_Delete":    VP_C10_Delete,
	"VP_C10_UpdateHash": VP_C10_UpdateHash,
	"VP_C10_Reload":    VP_C10_Reload,
	"VP_C19_IndexRead":  VP_C19_IndexRead,
	"VP_C19_ConfigLoad": VP_C19_ConfigLoad,
	"VP_C19_NewHead":    VP_C19_NewHead,
	"VP_C19_RefsLoad":   VP_C19_RefsLoad,
	"VP_C19_ReflogLoad": VP_C19_ReflogLoad,
	"VP_C20_WriteLoad":  VP_C20_WriteLoad,
	"VP_C20_Precedence": VP_C20_Precedence,
	"VP_C11_RoundTrip":  VP_C11_RoundTrip,
}
