package store

import (
	"github.com/JunNishimura/Goit/internal/sha"
	"github.com/JunNishimura/Goit/internal/zzvp"
)

const vpRefAlpha = "a-zA-Z0-9_.-"
const vpRefFirst = "a-zA-Z0-9_.-"

func vpRefName(name string, maxLen int) string {
	n := 1 + zzvp.Choose(maxLen)
	s := zzvp.Str(name+"0", 1, vpRefFirst)
	if n > 1 {
		s += zzvp.Str(name+"1", n-1, vpRefAlpha)
	}
	zzvp.Assume(s != "." && s != "..") // not valid branch names
	return s
}

func vpHex(h []byte) string { return sha.SHA1(h).String() }

// vpRefs builds an arbitrary INV_refs state: Heads strictly ascending by name, each with a file holding its 40-hex id.
func vpRefs(k, maxLen int) (*Refs, string) {
	g := vpGoitDir()
	zzvp.MkdirAll(g + "/refs/heads")
	r := newRefs()
	for i := 0; i < k; i++ {
		nm := vpRefName("b"+string(rune('0'+i)), maxLen)
		h := zzvp.Bytes("bh"+string(rune('0'+i)), 20, "")
		if i > 0 {
			zzvp.Assume(r.Heads[i-1].Name < nm)
		}
		r.Heads = append(r.Heads, newBranch(nm, sha.SHA1(h)))
		zzvp.WriteFile(g+"/refs/heads/"+nm, []byte(vpHex(h)))
	}
	return r, g
}

func vpRefsSorted(r *Refs) bool {
	ok := true
	for i := 1; i < len(r.Heads); i++ {
		if !(r.Heads[i-1].Name < r.Heads[i].Name) {
			ok = false
		}
	}
	return ok
}

// vpRefsOnDisk: refs/heads holds exactly the branches of r with their ids.
func vpRefsOnDisk(r *Refs, g string) bool {
	names := zzvp.List(g + "/refs/heads")
	ok := len(names) == len(r.Heads)
	for _, b := range r.Heads {
		c, rok := zzvp.ReadFile(g + "/refs/heads/" + b.Name)
		if !rok || string(c) != b.hash.String() {
			ok = false
		}
	}
	return ok
}

type vpBr struct {
	name string
	hash string
}

func vpCopyRefs(r *Refs) []vpBr {
	var out []vpBr
	for _, b := range r.Heads {
		out = append(out, vpBr{b.Name, string(b.hash)})
	}
	return out
}

func vpHas(r *Refs, name, hash string) bool {
	for _, b := range r.Heads {
		if b.Name == name && string(b.hash) == hash {
			return true
		}
	}
	return false
}

func VP_C10_Pos() {
	k := zzvp.Choose(zzvp.Param("branches", 4) + 1)
	r, _ := vpRefs(k, zzvp.Param("namelen", 3))
	q := vpRefName("q", zzvp.Param("namelen", 3))
	pos := r.getBranchPos(q)
	want := -1
	for i, b := range r.Heads {
		if b.Name == q {
			want = i
		}
	}
	zzvp.Assert(pos == want, "a branch is found iff it exists, at its position")
	zzvp.Done()
}

func VP_C10_Add() {
	k := zzvp.Choose(zzvp.Param("branches", 3) + 1)
	r, g := vpRefs(k, zzvp.Param("namelen", 2))
	old := vpCopyRefs(r)
	q := vpRefName("q", zzvp.Param("namelen", 2))
	h := zzvp.Bytes("qh", 20, "")
	exists := false
	for _, o := range old {
		if o.name == q {
			exists = true
		}
	}
	s0 := zzvp.Snapshot(g)
	err := r.AddBranch(g, q, sha.SHA1(h))
	if exists {
		zzvp.Assert(err != nil, "creating a branch under an existing name is refused")
		zzvp.Assert(zzvp.SnapEq(s0, zzvp.Snapshot(g)) && len(r.Heads) == len(old), "a refused branch creation changes nothing")
	} else {
		zzvp.Assert(err == nil, "creating a branch under a new name succeeds")
		ok := len(r.Heads) == len(old)+1 && vpHas(r, q, string(h))
		for _, o := range old {
			if !vpHas(r, o.name, o.hash) {
				ok = false
			}
		}
		zzvp.Assert(ok, "creating a branch adds exactly one branch and all other branches keep their commits")
		zzvp.Assert(vpRefsSorted(r), "branches stay sorted after a creation")
		zzvp.Assert(vpRefsOnDisk(r, g), "refs/heads holds exactly the branches with their full ids after a creation")
	}
	zzvp.Done()
}

func VP_C10_Rename() {
	k := 1 + zzvp.Choose(zzvp.Param("branches", 3))
	r, g := vpRefs(k, zzvp.Param("namelen", 2))
	old := vpCopyRefs(r)
	ci := zzvp.Choose(k)
	cur := old[ci].name
	q := vpRefName("q", zzvp.Param("namelen", 2))
	exists := false
	for _, o := range old {
		if o.name == q {
			exists = true
		}
	}
	s0 := zzvp.Snapshot(g)
	err := r.RenameBranch(g, cur, q)
	if exists {
		zzvp.Assert(err != nil, "renaming to an existing name is refused")
		ok := len(r.Heads) == len(old)
		for _, o := range old {
			if !vpHas(r, o.name, o.hash) {
				ok = false
			}
		}
		zzvp.Assert(ok && zzvp.SnapEq(s0, zzvp.Snapshot(g)), "a refused rename changes nothing")
	} else {
		zzvp.Assert(err == nil, "renaming to a new name succeeds")
		// (the branch now exists under both names on disk until HEAD has been moved; branch -r then removes the old file)
		zzvp.Assert(zzvp.Exists(g+"/refs/heads/"+cur) && zzvp.Exists(g+"/refs/heads/"+q), "during a rename the branch exists under both names, so HEAD never names a missing branch")
		zzvp.Assert(r.RemoveRenamedBranch(g, cur) == nil, "removing the old name succeeds")
		ok := len(r.Heads) == len(old) && vpHas(r, q, old[ci].hash)
		for i, o := range old {
			if i != ci && !vpHas(r, o.name, o.hash) {
				ok = false
			}
		}
		zzvp.Assert(ok, "rename gives the branch a new name with the same commit; all others unchanged")
		zzvp.Assert(vpRefsSorted(r), "branches stay sorted after a rename")
		zzvp.Assert(vpRefsOnDisk(r, g), "refs/heads holds exactly the branches after a rename")
	}
	zzvp.Done()
}

func VP_C10_Delete() {
	k := 1 + zzvp.Choose(zzvp.Param("branches", 3))
	r, g := vpRefs(k, zzvp.Param("namelen", 2))
	old := vpCopyRefs(r)
	cur := old[zzvp.Choose(k)].name
	q := vpRefName("q", zzvp.Param("namelen", 2))
	exists := false
	for _, o := range old {
		if o.name == q {
			exists = true
		}
	}
	s0 := zzvp.Snapshot(g)
	err := r.DeleteBranch(g, cur, q)
	if !exists || q == cur {
		zzvp.Assert(err != nil, "deleting the current branch or an unknown branch is refused")
		ok := len(r.Heads) == len(old)
		for _, o := range old {
			if !vpHas(r, o.name, o.hash) {
				ok = false
			}
		}
		zzvp.Assert(ok && zzvp.SnapEq(s0, zzvp.Snapshot(g)), "a refused deletion changes nothing")
	} else {
		zzvp.Assert(err == nil, "deleting another existing branch succeeds")
		ok := len(r.Heads) == len(old)-1
		for _, o := range old {
			if o.name != q && !vpHas(r, o.name, o.hash) {
				ok = false
			}
			if o.name == q && vpHas(r, o.name, o.hash) {
				ok = false
			}
		}
		zzvp.Assert(ok, "delete removes exactly the named branch")
		zzvp.Assert(vpRefsSorted(r) && vpRefsOnDisk(r, g), "refs/heads holds exactly the remaining branches, sorted")
	}
	zzvp.Done()
}

func VP_C10_UpdateHash() {
	k := zzvp.Choose(zzvp.Param("branches", 3) + 1)
	r, g := vpRefs(k, zzvp.Param("namelen", 2))
	old := vpCopyRefs(r)
	q := vpRefName("q", zzvp.Param("namelen", 2))
	h := zzvp.Bytes("qh", 20, "")
	exists := false
	for _, o := range old {
		if o.name == q {
			exists = true
		}
	}
	s0 := zzvp.Snapshot(g)
	err := r.UpdateBranchHash(g, q, sha.SHA1(h))
	if !exists {
		zzvp.Assert(err != nil && zzvp.SnapEq(s0, zzvp.Snapshot(g)), "updating an unknown branch is refused and changes nothing")
	} else {
		zzvp.Assert(err == nil, "updating an existing branch succeeds")
		ok := len(r.Heads) == len(old) && vpHas(r, q, string(h))
		for _, o := range old {
			if o.name != q && !vpHas(r, o.name, o.hash) {
				ok = false
			}
		}
		zzvp.Assert(ok && vpRefsOnDisk(r, g), "update sets exactly the named branch; on disk too")
	}
	zzvp.Done()
}

// VP_C10_Reload: NewRefs reads back exactly what is stored, sorted (every process start).
func VP_C10_Reload() {
	k := zzvp.Choose(zzvp.Param("branches", 3) + 1)
	r, g := vpRefs(k, zzvp.Param("namelen", 2))
	back, err := NewRefs(g)
	zzvp.Assert(err == nil, "branches written as 40 hex digits load")
	if err == nil {
		ok := len(back.Heads) == len(r.Heads)
		if ok {
			for i := range r.Heads {
				if back.Heads[i].Name != r.Heads[i].Name || string(back.Heads[i].hash) != string(r.Heads[i].hash) {
					ok = false
				}
			}
		}
		zzvp.Assert(ok, "loading refs yields exactly the stored branches in sorted order")
	}
	zzvp.Done()
}
