// Package zzos is a drop-in replacement for the parts of package os that Goit uses. It is compiled into an
// INSTRUMENTED goit binary only (go build -overlay, imports rewritten in scratch copies of the sources; /repo is not
// touched) so that a counterexample of the crash / I/O-fault checks can be replayed against the real code and the real
// file system: it counts file-system modifications and fallible calls exactly as the symbolic model does, kills the
// process right after modification number VP_CRASH_AT and makes fallible call number VP_FAULT_AT fail with EIO.
package zzos

import (
	"io/fs"
	"os"
	"path/filepath"
	"strconv"
	"strings"
	"syscall"
)

const (
	ModePerm = os.ModePerm
	O_RDONLY = os.O_RDONLY
	O_WRONLY = os.O_WRONLY
	O_RDWR   = os.O_RDWR
	O_APPEND = os.O_APPEND
	O_CREATE = os.O_CREATE
	O_EXCL   = os.O_EXCL
	O_TRUNC  = os.O_TRUNC
)

type FileInfo = os.FileInfo
type FileMode = os.FileMode
type DirEntry = os.DirEntry
type PathError = os.PathError

var (
	Args        = os.Args
	Stdout      = os.Stdout
	Stderr      = os.Stderr
	Stdin       = os.Stdin
	ErrNotExist = os.ErrNotExist
	ErrExist    = os.ErrExist
)

var (
	crashAt, faultAt int
	muts, ops        int
	countFile        string
	eventFile        string
)

func init() {
	crashAt, _ = strconv.Atoi(os.Getenv("VP_CRASH_AT"))
	faultAt, _ = strconv.Atoi(os.Getenv("VP_FAULT_AT"))
	countFile = os.Getenv("VP_COUNT_FILE")
	eventFile = os.Getenv("VP_EVENT_FILE")
	if countFile != "" {
		b, _ := os.ReadFile(countFile)
		muts = strings.Count(string(b), "m")
		ops = strings.Count(string(b), "o")
	}
}

func note(c string) {
	if countFile != "" {
		f, err := os.OpenFile(countFile, os.O_WRONLY|os.O_CREATE|os.O_APPEND, 0o644)
		if err == nil {
			f.WriteString(c)
			f.Close()
		}
	}
}

func event(s string) {
	if eventFile != "" {
		f, err := os.OpenFile(eventFile, os.O_WRONLY|os.O_CREATE|os.O_APPEND, 0o644)
		if err == nil {
			f.WriteString(s + "\n")
			f.Close()
		}
	}
}

// mutated is called right after a file-system modification took effect.
func mutated(op, path string) {
	muts++
	note("m")
	if crashAt > 0 && muts == crashAt {
		event("crash after #" + strconv.Itoa(muts) + " " + op + " " + path)
		os.Exit(137) // nothing else runs: equivalent to SIGKILL for the file system
	}
}

// fallible is called before a fallible call; a non-nil result means the call fails without effect.
func fallible(op, path string) error {
	ops++
	note("o")
	if os.Getenv("VP_TRACE_OPS") != "" {
		event("op #" + strconv.Itoa(ops) + " " + op + " " + path)
	}
	if faultAt > 0 && ops == faultAt {
		event("fault at #" + strconv.Itoa(ops) + " " + op + " " + path)
		return &os.PathError{Op: op, Path: path, Err: syscall.EIO}
	}
	return nil
}

type File struct {
	f    *os.File
	path string
	// the first Read on a handle is one fallible operation (as in the model)
	readChecked bool
}

func (f *File) Write(b []byte) (int, error) {
	if f == nil {
		return 0, os.ErrInvalid
	}
	if err := fallible("write", f.path); err != nil {
		return 0, err
	}
	n, err := f.f.Write(b)
	if err == nil {
		mutated("write", f.path)
	}
	return n, err
}
func (f *File) WriteString(s string) (int, error) { return f.Write([]byte(s)) }
func (f *File) Read(b []byte) (int, error) {
	if f == nil {
		return 0, os.ErrInvalid
	}
	if !f.readChecked {
		f.readChecked = true
		if err := fallible("read", f.path); err != nil {
			return 0, err
		}
	}
	return f.f.Read(b)
}
func (f *File) Close() error {
	if f == nil {
		return os.ErrInvalid
	}
	return f.f.Close()
}
func (f *File) Name() string { return f.path }
func (f *File) Stat() (os.FileInfo, error) {
	if f == nil {
		return nil, os.ErrInvalid
	}
	return f.f.Stat()
}

func OpenFile(name string, flag int, perm os.FileMode) (*File, error) {
	if err := fallible("open", name); err != nil {
		return nil, err
	}
	_, statErr := os.Lstat(name)
	existed := statErr == nil
	f, err := os.OpenFile(name, flag, perm)
	if err != nil {
		return nil, err
	}
	if flag&os.O_CREATE != 0 && !existed {
		mutated("create", name)
	} else if flag&os.O_TRUNC != 0 && existed {
		mutated("truncate", name)
	}
	return &File{f: f, path: name}, nil
}
func Create(name string) (*File, error) {
	return OpenFile(name, os.O_RDWR|os.O_CREATE|os.O_TRUNC, 0o666)
}
func Open(name string) (*File, error) {
	if err := fallible("open", name); err != nil {
		return nil, err
	}
	f, err := os.Open(name)
	if err != nil {
		return nil, err
	}
	return &File{f: f, path: name}, nil
}
func ReadFile(name string) ([]byte, error) {
	if err := fallible("open", name); err != nil {
		return nil, err
	}
	if st, err := os.Stat(name); err == nil && !st.IsDir() {
		if err := fallible("read", name); err != nil {
			return nil, err
		}
	}
	return os.ReadFile(name)
}
func WriteFile(name string, data []byte, perm os.FileMode) error {
	f, err := OpenFile(name, os.O_WRONLY|os.O_CREATE|os.O_TRUNC, perm)
	if err != nil {
		return err
	}
	_, err = f.Write(data)
	if cerr := f.Close(); err == nil {
		err = cerr
	}
	return err
}
func ReadDir(name string) ([]os.DirEntry, error) {
	if err := fallible("readdir", name); err != nil {
		return nil, err
	}
	return os.ReadDir(name)
}
func Mkdir(name string, perm os.FileMode) error {
	if err := fallible("mkdir", name); err != nil {
		return err
	}
	err := os.Mkdir(name, perm)
	if err == nil {
		mutated("mkdir", name)
	}
	return err
}
func MkdirAll(path string, perm os.FileMode) error {
	if err := fallible("mkdir", path); err != nil {
		return err
	}
	abs, err := filepath.Abs(path)
	if err != nil {
		return err
	}
	cur := string(filepath.Separator)
	for _, c := range strings.Split(abs, string(filepath.Separator)) {
		if c == "" {
			continue
		}
		cur = filepath.Join(cur, c)
		fi, err := os.Stat(cur)
		if err == nil {
			if !fi.IsDir() {
				return &os.PathError{Op: "mkdir", Path: path, Err: syscall.ENOTDIR}
			}
			continue
		}
		if err := os.Mkdir(cur, perm); err != nil {
			return err
		}
		mutated("mkdir", cur)
	}
	return nil
}
func Remove(name string) error {
	if err := fallible("remove", name); err != nil {
		return err
	}
	err := os.Remove(name)
	if err == nil {
		mutated("remove", name)
	}
	return err
}
func RemoveAll(name string) error {
	if err := fallible("remove", name); err != nil {
		return err
	}
	_, statErr := os.Lstat(name)
	err := os.RemoveAll(name)
	if err == nil && statErr == nil {
		mutated("removeall", name)
	}
	return err
}
func Rename(oldpath, newpath string) error {
	if err := fallible("rename", oldpath); err != nil {
		return err
	}
	err := os.Rename(oldpath, newpath)
	if err == nil {
		mutated("rename", oldpath)
	}
	return err
}

func Stat(name string) (os.FileInfo, error)  { return os.Stat(name) }
func Lstat(name string) (os.FileInfo, error) { return os.Lstat(name) }
func IsNotExist(err error) bool              { return os.IsNotExist(err) }
func IsExist(err error) bool                 { return os.IsExist(err) }
func Getwd() (string, error)                 { return os.Getwd() }
func UserHomeDir() (string, error)           { return os.UserHomeDir() }
func Exit(code int)                          { os.Exit(code) }
func Getenv(k string) string                 { return os.Getenv(k) }
func Chdir(d string) error                   { return os.Chdir(d) }
func DirFS(d string) fs.FS                   { return os.DirFS(d) }
func TempDir() string                        { return os.TempDir() }
func Chmod(name string, m os.FileMode) error { return os.Chmod(name, m) }
