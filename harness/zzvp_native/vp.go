// Package zzvp is the harness API. This file is the NATIVE side, used by `go test -overlay` replays and by the
// differential validation of the symbolic executor: inputs come from a JSON case file, Run executes the real goit
// binary built from /repo's current tree, file-system helpers act on a real temporary directory.
package zzvp

import (
	"bytes"
	"compress/zlib"
	"crypto/sha1"
	"encoding/json"
	"fmt"
	"io"
	"os"
	"os/exec"
	"path/filepath"
	"sort"
	"strconv"
	"strings"
	"testing"
	"time"
)

type Result struct {
	Exit  int
	Out   string
	Panic string
}

type Case struct {
	Harness string                 `json:"harness"`
	Inputs  map[string]interface{} `json:"inputs"`
	Params  map[string]int         `json:"params"`
	Known   map[string]bool        `json:"known"`
	Scale   int                    `json:"scale"`
	PadTo   int                    `json:"pad_to"`
}

type AssertRec struct {
	Msg string `json:"msg"`
	OK  bool   `json:"ok"`
}

type CaseResult struct {
	Harness string      `json:"harness"`
	Outcome string      `json:"outcome"` // ok | assume-false | panic
	Panic   string      `json:"panic,omitempty"`
	Asserts []AssertRec `json:"asserts"`
	Notes   []string    `json:"notes,omitempty"`
	Done    bool        `json:"done"`
}

type assumeFail struct{}

var cur struct {
	c       Case
	choices []int
	ci      int
	res     *CaseResult
	root    string
	home    string
	tz      string
	snaps   []map[string]string
	intFlag map[string]int
	ckpts   []string
	crashAt int
	faultAt int
}

func NativeMain(t *testing.T, harnesses map[string]func()) {
	casesPath := os.Getenv("VP_CASES")
	if casesPath == "" {
		t.Skip("VP_CASES not set")
	}
	b, err := os.ReadFile(casesPath)
	if err != nil {
		t.Fatal(err)
	}
	var cases []Case
	if err := json.Unmarshal(b, &cases); err != nil {
		t.Fatal(err)
	}
	var results []CaseResult
	wd, _ := os.Getwd()
	for _, c := range cases {
		h, ok := harnesses[c.Harness]
		if !ok {
			results = append(results, CaseResult{Harness: c.Harness, Outcome: "unknown-harness"})
			continue
		}
		results = append(results, runCase(c, h))
		os.Chdir(wd)
	}
	out, _ := json.MarshalIndent(results, "", " ")
	if err := os.WriteFile(os.Getenv("VP_OUT"), out, 0o644); err != nil {
		t.Fatal(err)
	}
}

func runCase(c Case, h func()) (res CaseResult) {
	res.Harness = c.Harness
	res.Outcome = "ok"
	tmp, err := os.MkdirTemp("", "vpcase")
	if err != nil {
		panic(err)
	}
	defer os.RemoveAll(tmp)
	tmp, _ = filepath.EvalSymlinks(tmp)
	cur.c = c
	cur.res = &res
	cur.root = filepath.Join(tmp, "w")
	cur.home = filepath.Join(tmp, "h")
	cur.tz = ""
	cur.snaps = nil
	cur.intFlag = nil
	cur.ckpts = nil
	cur.crashAt, cur.faultAt = 0, 0
	cur.choices = nil
	cur.ci = 0
	if ch, ok := c.Inputs["@choices"].([]interface{}); ok {
		for _, v := range ch {
			cur.choices = append(cur.choices, int(v.(float64)))
		}
	}
	os.MkdirAll(cur.root, 0o755)
	os.MkdirAll(cur.home, 0o755)
	os.Chdir(cur.root)
	oldHome := os.Getenv("HOME")
	os.Setenv("HOME", cur.home)
	defer os.Setenv("HOME", oldHome)
	defer func() {
		if r := recover(); r != nil {
			if _, ok := r.(assumeFail); ok {
				res.Outcome = "assume-false"
				return
			}
			res.Outcome = "panic"
			res.Panic = fmt.Sprint(r)
		}
	}()
	h()
	return
}

func inputBytes(name string, n int, alphabet string) []byte {
	out := make([]byte, n)
	if v, ok := cur.c.Inputs[name].([]interface{}); ok {
		for i := 0; i < n && i < len(v); i++ {
			out[i] = byte(v[i].(float64))
		}
		return out
	}
	// absent: first character of the alphabet
	var fill byte
	if alphabet != "" {
		fill = alphabet[0]
	}
	for i := range out {
		out[i] = fill
	}
	return out
}

// scaled repeats the input when the case asks for it (replay of counterexamples that need a payload beyond one inflate window)
func scaled(b []byte) []byte {
	if cur.c.PadTo > 0 && len(b) > 0 {
		out := make([]byte, cur.c.PadTo)
		for i := range out {
			out[i] = b[i%len(b)]
		}
		return out
	}
	if cur.c.Scale <= 1 || len(b) == 0 {
		return b
	}
	return bytes.Repeat(b, cur.c.Scale)
}
func Bytes(name string, n int, alphabet string) []byte { return scaled(inputBytes(name, n, alphabet)) }
func Str(name string, n int, alphabet string) string   { return string(scaled(inputBytes(name, n, alphabet))) }
func Int(name string, lo, hi int) int {
	if v, ok := cur.c.Inputs[name].(float64); ok {
		return int(v)
	}
	return lo
}
func Bool(name string) bool {
	v, _ := cur.c.Inputs[name].(bool)
	return v
}
func Choose(n int) int {
	if cur.ci < len(cur.choices) {
		v := cur.choices[cur.ci]
		cur.ci++
		if v < n {
			return v
		}
	}
	return 0
}
func Param(name string, def int) int {
	if v, ok := cur.c.Params[name]; ok {
		return v
	}
	return def
}
func Assume(c bool) {
	if !c {
		panic(assumeFail{})
	}
}
func Assert(c bool, msg string) {
	cur.res.Asserts = append(cur.res.Asserts, AssertRec{msg, c})
}
func Note(s string)         { cur.res.Notes = append(cur.res.Notes, s) }
func Known(id string) bool  { return cur.c.Known[id] }
func Done()                 { cur.res.Done = true }
func Root() string          { return cur.root }
func Home() string          { return cur.home }
func MapOrderNondet()       {}

// Crash / fault injection is done by the instrumented goit binary (VP_GOIT_INSTR, built with package zzos in place of os).
func eventsPath() string { return filepath.Join(filepath.Dir(cur.root), "events") }
func countsPath() string { return filepath.Join(filepath.Dir(cur.root), "counts") }
func CrashAt(k int) {
	cur.crashAt, cur.faultAt = k, 0
	os.Remove(eventsPath())
	os.Remove(countsPath())
}
func FaultAt(k int) {
	cur.faultAt, cur.crashAt = k, 0
	os.Remove(eventsPath())
	os.Remove(countsPath())
}
func NoCrash() { cur.crashAt = 0 }
func NoFault() { cur.faultAt = 0 }
func countOf(c string) int {
	b, _ := os.ReadFile(countsPath())
	return strings.Count(string(b), c)
}
func Mutations() int { return countOf("m") }
func Ops() int       { return countOf("o") }
func Faulted() bool {
	b, _ := os.ReadFile(eventsPath())
	return strings.Contains(string(b), "fault at")
}
func Crashed() bool {
	b, _ := os.ReadFile(eventsPath())
	return strings.Contains(string(b), "crash after")
}
func Sha1(data []byte) []byte {
	s := sha1.Sum(data)
	return s[:]
}
func SetIntFlag(name string, v int) {
	if cur.intFlag == nil {
		cur.intFlag = map[string]int{}
	}
	cur.intFlag[name] = v
}

// tzFile writes a minimal TZif (version 1) file describing a fixed offset.
func tzFile(offsetSec int) string {
	var b bytes.Buffer
	b.WriteString("TZif")
	b.WriteByte(0)
	b.Write(make([]byte, 15))
	be32 := func(v uint32) { b.Write([]byte{byte(v >> 24), byte(v >> 16), byte(v >> 8), byte(v)}) }
	be32(0) // isutcnt
	be32(0) // isstdcnt
	be32(0) // leapcnt
	be32(0) // timecnt
	be32(1) // typecnt
	be32(4) // charcnt
	be32(uint32(int32(offsetSec)))
	b.WriteByte(0) // isdst
	b.WriteByte(0) // abbrind
	b.WriteString("VPZ\x00")
	p := filepath.Join(filepath.Dir(cur.root), "tz")
	os.WriteFile(p, b.Bytes(), 0o644)
	return p
}

func SetClock(unixDigits string, offsetSec int) { cur.tz = tzFile(offsetSec) }
func ClockControlled() bool                       { return false }
func Time(unixDigits string, offsetSec int) time.Time {
	u, _ := strconv.ParseInt(unixDigits, 10, 64)
	return time.Unix(u, 0).In(time.FixedZone("VPZ", offsetSec))
}

// Capture runs f with os.Stdout redirected to a file and returns what was printed.
func Capture(f func()) string {
	tmp, err := os.CreateTemp("", "vpout")
	if err != nil {
		panic(err)
	}
	defer os.Remove(tmp.Name())
	old := os.Stdout
	os.Stdout = tmp
	func() {
		defer func() { os.Stdout = old }()
		f()
	}()
	tmp.Close()
	b, _ := os.ReadFile(tmp.Name())
	return string(b)
}

func Run(argv ...string) Result {
	bin := os.Getenv("VP_GOIT")
	args := append([]string{}, argv...)
	if len(cur.intFlag) > 0 && len(args) > 0 {
		for k, v := range cur.intFlag {
			args = append(args, "--"+k+"="+strconv.Itoa(v))
		}
		cur.intFlag = nil
	}
	env := []string{"HOME=" + cur.home, "PATH=/usr/bin:/bin", "NO_COLOR=1"}
	if cur.crashAt > 0 || cur.faultAt > 0 {
		if ib := os.Getenv("VP_GOIT_INSTR"); ib != "" {
			bin = ib
		}
		env = append(env, "VP_CRASH_AT="+strconv.Itoa(cur.crashAt), "VP_FAULT_AT="+strconv.Itoa(cur.faultAt),
			"VP_COUNT_FILE="+countsPath(), "VP_EVENT_FILE="+eventsPath())
	}
	cmd := exec.Command(bin, args...)
	cmd.Dir = cur.root
	if cur.tz != "" {
		env = append(env, "TZ="+cur.tz)
	} else {
		env = append(env, "TZ=UTC")
	}
	cmd.Env = env
	var so, se bytes.Buffer
	cmd.Stdout, cmd.Stderr = &so, &se
	// a command that does not finish is a hang (C18): the limit is far above any real run (milliseconds)
	limit := 20 * time.Second
	if v, e := strconv.Atoi(os.Getenv("VP_RUN_TIMEOUT_S")); e == nil && v > 0 {
		limit = time.Duration(v) * time.Second
	}
	err := cmd.Start()
	if err == nil {
		done := make(chan error, 1)
		go func() { done <- cmd.Wait() }()
		select {
		case err = <-done:
		case <-time.After(limit):
			cmd.Process.Kill()
			<-done
			panic("hang: `goit " + strings.Join(args, " ") + "` did not finish within " + limit.String())
		}
	}
	r := Result{Out: so.String()}
	if err != nil {
		if ee, ok := err.(*exec.ExitError); ok {
			r.Exit = ee.ExitCode()
		} else {
			r.Exit = 127
		}
	}
	if i := strings.Index(se.String(), "panic:"); i >= 0 {
		line := se.String()[i:]
		if j := strings.IndexByte(line, '\n'); j >= 0 {
			line = line[:j]
		}
		r.Panic = line
		r.Exit = 2
	}
	return r
}

func WriteFile(path string, data []byte) {
	os.MkdirAll(filepath.Dir(path), 0o755)
	if fi, err := os.Stat(path); err == nil && fi.IsDir() {
		os.RemoveAll(path)
	}
	if err := os.WriteFile(path, data, 0o644); err != nil {
		panic(err)
	}
}
func WriteZ(path string, payload []byte) {
	var b bytes.Buffer
	w := zlib.NewWriter(&b)
	w.Write(payload)
	w.Close()
	WriteFile(path, b.Bytes())
}
func WriteRaw(path string, data []byte) { WriteFile(path, data) }
func ReadFile(path string) ([]byte, bool) {
	fi, err := os.Stat(path)
	if err != nil || fi.IsDir() {
		return nil, false
	}
	b, err := os.ReadFile(path)
	if err != nil {
		return nil, false
	}
	if b == nil {
		b = []byte{}
	}
	return b, true
}
func ReadZ(path string) ([]byte, bool) {
	f, err := os.Open(path)
	if err != nil {
		return nil, false
	}
	defer f.Close()
	zr, err := zlib.NewReader(f)
	if err != nil {
		return nil, false
	}
	b, err := io.ReadAll(zr)
	if err != nil {
		return nil, false
	}
	if b == nil {
		b = []byte{}
	}
	return b, true
}
func Exists(path string) bool { _, err := os.Stat(path); return err == nil }
func IsDir(path string) bool  { fi, err := os.Stat(path); return err == nil && fi.IsDir() }
func MkdirAll(path string)    { os.MkdirAll(path, 0o755) }
func RemoveAll(path string)   { os.RemoveAll(path) }
func List(dir string) []string {
	es, err := os.ReadDir(dir)
	out := []string{}
	if err != nil {
		return out
	}
	for _, e := range es {
		out = append(out, e.Name())
	}
	sort.Strings(out)
	return out
}

// Checkpoint copies the whole case directory (work tree and home); Restore puts a copy back.
func Checkpoint() int {
	base := filepath.Dir(cur.root)
	dst := filepath.Join(base, fmt.Sprintf("ckpt%d", len(cur.ckpts)))
	copyTree(cur.root, filepath.Join(dst, "w"))
	copyTree(cur.home, filepath.Join(dst, "h"))
	cur.ckpts = append(cur.ckpts, dst)
	return len(cur.ckpts) - 1
}

func Restore(id int) {
	os.RemoveAll(cur.root)
	os.RemoveAll(cur.home)
	copyTree(filepath.Join(cur.ckpts[id], "w"), cur.root)
	copyTree(filepath.Join(cur.ckpts[id], "h"), cur.home)
}

func copyTree(src, dst string) {
	filepath.Walk(src, func(p string, info os.FileInfo, err error) error {
		if err != nil {
			return nil
		}
		rel, _ := filepath.Rel(src, p)
		t := filepath.Join(dst, rel)
		if info.IsDir() {
			os.MkdirAll(t, 0o755)
		} else {
			b, _ := os.ReadFile(p)
			os.MkdirAll(filepath.Dir(t), 0o755)
			os.WriteFile(t, b, 0o644)
		}
		return nil
	})
}

func Snapshot(root string) int {
	m := map[string]string{}
	filepath.Walk(root, func(p string, info os.FileInfo, err error) error {
		if err != nil {
			return nil
		}
		if info.IsDir() {
			m[p] = "\x00dir"
		} else {
			b, _ := os.ReadFile(p)
			m[p] = "f:" + string(b)
		}
		return nil
	})
	cur.snaps = append(cur.snaps, m)
	return len(cur.snaps) - 1
}

func SnapEq(a, b int, except ...string) bool {
	ma, mb := cur.snaps[a], cur.snaps[b]
	excepted := func(p string) bool {
		for _, e := range except {
			if p == e || strings.HasPrefix(p, e+"/") {
				return true
			}
		}
		return false
	}
	for p, v := range ma {
		if excepted(p) {
			continue
		}
		if w, ok := mb[p]; !ok || w != v {
			return false
		}
	}
	for p := range mb {
		if excepted(p) {
			continue
		}
		if _, ok := ma[p]; !ok {
			return false
		}
	}
	return true
}
