#!/bin/sh
# development helper: run every registered quick check in turn
for p in C01 C02 C03 C04 C05 C06 C07 C08 C09 C10 C11 C12 C13 C14 C15 C16 C17 C18 C19 C20; do
  /usr/bin/time -f "$p wall=%es" /verif/bin/goitsym check -j ${QJ:-16} --property $p --tier ${1:-quick} > /tmp/vpq_$p.log 2>&1
  echo "$p exit=$? $(tail -2 /tmp/vpq_$p.log | tr '\n' ' ')"
done
